#!/bin/bash
# tools/muttest.sh [-t] <patch.diff> <ID> [<ID>...]
#   copies /repo (lib, tests, yaml, packaging files) to a scratch directory under /var/tmp, applies the patch there,
#   optionally (-t) runs the repository's test-suite on the copy, runs the quick check of each ID against the copy
#   (evidence/replays go to the scratch dir, never to /verif/evidence), prints one line per check, removes the copy.
RUNTESTS=0
if [ "$1" = "-t" ]; then RUNTESTS=1; shift; fi
PATCH="$(realpath "$1")"; shift
HERE="$(cd "$(dirname "${BASH_SOURCE[0]}")/.." && pwd)"
W=$(mktemp -d /var/tmp/vf-mut-XXXXXX)
trap 'rm -rf "$W"' EXIT
mkdir -p "$W/repo"
(cd /repo && git ls-files -z | xargs -0 cp --parents -t "$W/repo" 2>/dev/null)
cp /repo/lib/yaml/_yaml*.so "$W/repo/lib/yaml/" 2>/dev/null
(cd "$W/repo" && patch -p1 -s < "$PATCH") || { echo "MUTTEST patch-failed $PATCH"; exit 3; }
if [ -n "$(cd "$W/repo" && find yaml -name '_yaml.c' -newer lib/yaml/__init__.py 2>/dev/null)" ]; then "$HERE/tools/build_ext.sh" "$W/repo" >/dev/null; fi
if [ $RUNTESTS = 1 ]; then
  (cd "$W/repo" && PYTHONPATH="$W/repo/lib" /venv/bin/python -m pytest -q -x -p no:cacheprovider tests 2>&1 | tail -2 | tr '\n' ' '; echo)
fi
for ID in "$@"; do
  out=$(VERIF_REPO="$W/repo" VERIF_EVIDENCE_DIR="$W/ev" VERIF_REPLAYS_DIR="$W/rp" "$HERE/check" "$ID" "${VERIF_TIER:-quick}" 2>&1)
  rc=$?
  nv=$(echo "$out" | grep -c '^VIOLATION')
  echo "MUTTEST $(basename "$(dirname "$PATCH")")/$(basename "$PATCH") $ID rc=$rc violation_lines=$nv :: $(echo "$out" | grep -A1 '^VIOLATION' | head -2 | tail -1 | cut -c1-300)"
done
