#!/usr/bin/env python3
"""tools/seedinstall.py <log file of tools/seedverify.sh runs> : copies every confirmed seed (tests pass, demo 1/0) from
/tmp/seedout/<id> to /verif/seeded/<id>/ and writes/updates meta.json with what was run and which checks reported it."""
import json, os, re, shutil, sys
HERE = os.path.dirname(os.path.dirname(os.path.abspath(__file__)))
log = open(sys.argv[1]).read().splitlines()
seeds = {}
for l in log:
    m = re.match(r'SEED (\S+) tests=\[(.*?)\] demo_changed=(\d+) demo_orig=(\d+)', l)
    if m:
        seeds.setdefault(m.group(1), {})['confirm'] = {'tests': m.group(2), 'demo_changed_exit': int(m.group(3)), 'demo_orig_exit': int(m.group(4))}
        continue
    m = re.match(r'SEED (\S+) check=(\S+) rc=(\d+) violation_lines=(\d+) :: ?(.*)', l)
    if m:
        seeds.setdefault(m.group(1), {}).setdefault('checks', {})[m.group(2)] = {'exit': int(m.group(3)), 'violation_lines': int(m.group(4)), 'first': m.group(5)[:300]}
for sid, info in sorted(seeds.items()):
    c = info.get('confirm')
    src = '/tmp/seedout/' + sid
    dst = os.path.join(HERE, 'seeded', sid)
    if c and os.path.isdir(src):
        if not ('passed' in c['tests'] and 'failed' not in c['tests'] and c['demo_changed_exit'] == 1 and c['demo_orig_exit'] == 0):
            print('NOT CONFIRMED', sid, c)
            continue
        os.makedirs(dst, exist_ok=True)
        for f in ('patch.diff', 'demo.py', 'notes.md'):
            if os.path.exists(os.path.join(src, f)):
                shutil.copy(os.path.join(src, f), os.path.join(dst, f))
    mp = os.path.join(dst, 'meta.json')
    if not os.path.isdir(dst):
        continue
    meta = json.load(open(mp)) if os.path.exists(mp) else {}
    meta.setdefault('id', sid)
    meta['breaks_property'] = sid.split('-')[0]
    notes = open(os.path.join(dst, 'notes.md')).read() if os.path.exists(os.path.join(dst, 'notes.md')) else ''
    meta['needs_to_manifest'] = meta.get('needs_to_manifest') or 'see notes.md (written by the sub-agent that produced the change)'
    meta['origin'] = 'independent sub-agent given only the property text and a scratch worktree of /repo'
    if c:
        meta['confirmed'] = {'how': 'tools/seedverify.sh: patch applied to a scratch copy of /repo under /var/tmp, full test-suite run there, demo.py run against the copy and against /repo',
                             'test_suite_with_change': c['tests'], 'demo_exit_with_change': c['demo_changed_exit'], 'demo_exit_without_change': c['demo_orig_exit']}
    runs = meta.setdefault('check_runs', {})
    for k, v in info.get('checks', {}).items():
        runs[k] = v
    meta['caught_by_quick'] = sorted(k for k, v in runs.items() if v['exit'] == 1 and v['violation_lines'] > 0)
    json.dump(meta, open(mp, 'w'), indent=1)
    print(sid, 'caught by', meta['caught_by_quick'] or 'NOTHING YET')
