ALL = ['C%02d' % i for i in range(1, 21)]
CHECKS = {
 'C03': dict(engine='vf-engine', level='exploration',
   technique='bounded-exhaustive input enumeration on the real scanner/parser/composer (both back-ends) with watchdog',
   text='every string <=4 (quick; <=5 thorough) over a 29-symbol indicator alphabet, every byte string <=4 over 25 encoding-critical bytes, all escapes x hex tails, directive/tag piece sequences, all 1-edits of small corpus files and nesting families are run through scan/parse/compose_all on both back-ends; any non-YAMLError exception, worker death, hang or out-of-range mark is a violation. Exhaustive inside those bounds, nothing sampled.',
   note='small-scope hypothesis for inputs outside the alphabets/bounds; LibYAML binary as built from yaml/_yaml.c (no Cython to regenerate it); per-case hang limit 20 s'),
}
NOT_APPLICABLE = {pid: 'check not built yet (work in progress, see DESIGN.md section 3)' for pid in ALL if pid not in CHECKS}
