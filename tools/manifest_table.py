ALL = ['C%02d' % i for i in range(1, 21)]
CHECKS = {
 'C03': dict(engine='vf-engine', level='exploration',
   technique='bounded-exhaustive input enumeration on the real scanner/parser/composer (both back-ends) with watchdog',
   text='every string <=4 (quick; <=5 thorough) over a 29-symbol indicator alphabet, every byte string <=4 over 25 encoding-critical bytes, all escapes x hex tails, directive/tag piece sequences, all 1-edits of small corpus files and nesting families are run through scan/parse/compose_all on both back-ends; any non-YAMLError exception, worker death, hang or out-of-range mark is a violation. Exhaustive inside those bounds, nothing sampled.',
   note='small-scope hypothesis for inputs outside the alphabets/bounds; LibYAML binary as built from yaml/_yaml.c (no Cython to regenerate it); per-case hang limit 20 s'),
 'C09': dict(engine='vf-engine', level='model_checking',
   technique='explicit-state BFS over the real Parser driven by a stub token source (all token sequences to depth 7/10, canonical-state dedup) + bounded-exhaustive text enumeration against pushdown grammar acceptors and an independent line/column counter',
   text='Part B is explicit-state model checking of the implementation itself: the real yaml.parser.Parser is the transition system, the environment (token source) is owned by the explorer, every token sequence over 22 token shapes up to the depth bound is covered modulo a canonical control state, and on every transition the event prefix must stay inside the event grammar, consumed tokens inside the token grammar, marks must be token marks in order, failures must be ParserError. Part A runs the real scanner+parser on every string <=4/5 over 29 symbols and on corpus 1-edits and checks grammar, mark range/monotonicity, line/column (independent counter) and text slices.',
   note='canonical state = (Parser.state, states, len(marks), tag_handles, yaml_version after last completed event; pending tokens; event-acceptor stack): sound because Parser branches on nothing else; LibYAML side checked for range/monotonicity/grammar only; scan-only inputs are held to stream brackets and BLOCK-END underflow only (bracket balance is the parser\'s job)'),
}
NOT_APPLICABLE = {pid: 'check not built yet (work in progress, see DESIGN.md section 3)' for pid in ALL if pid not in CHECKS}
