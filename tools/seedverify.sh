#!/bin/bash
# tools/seedverify.sh <seed-dir containing patch.diff + demo.py> <ID> [<ID>...]
# confirms a seeded change: applies it in a scratch copy, runs the test-suite, runs the demo against the changed copy
# (expects exit 1) and against /repo (expects exit 0), then runs the quick check of each ID against the copy.
D="$(realpath "$1")"; shift
HERE="$(cd "$(dirname "${BASH_SOURCE[0]}")/.." && pwd)"
W=$(mktemp -d /var/tmp/vf-seed-XXXXXX)
trap 'rm -rf "$W"' EXIT
mkdir -p "$W/repo"
(cd /repo && git ls-files -z | xargs -0 cp --parents -t "$W/repo" 2>/dev/null)
cp /repo/lib/yaml/_yaml*.so "$W/repo/lib/yaml/" 2>/dev/null
(cd "$W/repo" && git init -q . 2>/dev/null && git apply "$D/patch.diff") || { echo "SEED $(basename $D) patch-failed"; exit 3; }
T=$(cd "$W/repo" && PYTHONPATH="$W/repo/lib" /venv/bin/python -m pytest -q -p no:cacheprovider tests 2>&1 | tail -1)
(cd "$W" && PYTHONPATH="$W/repo/lib" timeout 600 /venv/bin/python "$D/demo.py" >/dev/null 2>&1); DM=$?
(cd "$W" && PYTHONPATH="/repo/lib" timeout 600 /venv/bin/python "$D/demo.py" >/dev/null 2>&1); DO=$?
echo "SEED $(basename $D) tests=[$T] demo_changed=$DM demo_orig=$DO"
for ID in "$@"; do
  out=$(VERIF_REPO="$W/repo" VERIF_EVIDENCE_DIR="$W/ev" VERIF_REPLAYS_DIR="$W/rp" "$HERE/check" "$ID" "${VERIF_TIER:-quick}" 2>&1)
  rc=$?
  nv=$(echo "$out" | grep -c '^VIOLATION')
  echo "SEED $(basename $D) check=$ID rc=$rc violation_lines=$nv :: $(echo "$out" | grep -A1 '^VIOLATION' | head -2 | tail -1 | cut -c1-400)"
done
