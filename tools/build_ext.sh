#!/bin/bash
# Rebuild lib/yaml/_yaml*.so from yaml/_yaml.c iff the .c/.h is newer than the .so (or the .so is missing).
# No Cython exists in this sandbox, so yaml/_yaml.pyx itself cannot be regenerated.
set -e
REPO="${1:-/repo}"
PY=/venv/bin/python
SUF=$($PY -c 'import sysconfig;print(sysconfig.get_config_var("EXT_SUFFIX"))')
INC=$($PY -c 'import sysconfig;print(sysconfig.get_paths()["include"])')
SO="$REPO/lib/yaml/_yaml$SUF"
C="$REPO/yaml/_yaml.c"
if [ ! -f "$C" ]; then
  [ -f "$SO" ] && { echo "build_ext: no $C; using existing $SO"; exit 0; }
  echo "build_ext: neither $C nor $SO exist"; exit 1
fi
if [ -f "$SO" ] && [ ! "$C" -nt "$SO" ] && [ ! "$REPO/yaml/_yaml.h" -nt "$SO" ]; then
  echo "build_ext: $SO up to date"; exit 0
fi
echo "build_ext: compiling $C"
TMP="$SO.tmp.$$"
gcc -shared -fPIC -O1 -w -I"$INC" -I"$REPO/yaml" "$C" -lyaml -o "$TMP"
mv "$TMP" "$SO"
echo "build_ext: built $SO"
