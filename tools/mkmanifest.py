#!/usr/bin/env python3
"""Regenerates /verif/MANIFEST.json from the table below (kept valid at all times)."""
import json, os, sys
HERE = os.path.dirname(os.path.dirname(os.path.abspath(__file__)))
sys.path.insert(0, HERE)
from tools.manifest_table import CHECKS, NOT_APPLICABLE

checks = []
for pid, c in sorted(CHECKS.items()):
    checks.append({
        'property_id': pid,
        'quick_cmd': './check %s quick' % pid,
        'thorough_cmd': './check %s thorough' % pid,
        'evidence_file': 'evidence/%s.json' % pid,
        'replay_cmd_template': './check %s --replay {path}' % pid,
        'engine': c['engine'],
        'level_claimed': {'category': c['level'], 'text': c['text'], 'design_ref': 'DESIGN.md section 3, %s' % pid},
        'level_note': c['note'],
        'technique': c['technique'],
    })
m = {
    'version': 1,
    'setup_cmd': './check setup',
    'hooks': {
        'guard': 'YAML_PYYAML_VERIF',
        'enable': 'none needed: every observation is made from outside (instrumented streams, subclasses, stub token source, sys.setprofile, audit hooks); ./check exports YAML_PYYAML_VERIF=1 but no source in /repo reads it',
        'baseline_off_cmd': 'cd /repo && /venv/bin/python -m pytest -ra -q -p no:cacheprovider --timeout=900 --continue-on-collection-errors',
        'source_commits': [],
        'add_only': True,
    },
    'engines': [
        {'name': 'vf-engine', 'path': 'vf/engine.py', 'serves_properties': sorted(CHECKS),
         'kind_free_text': 'hand-written bounded-exhaustive explorer for Python: deterministic job plan, 16 long-lived workers, per-job watchdog with isolating re-run, E1 input enumeration / E2 environment-choice (read schedule) exploration / E3 explicit-state BFS over real objects / E4 fault-point enumeration'},
    ],
    'checks': checks,
    'notes': 'All checks run the real implementation in /repo (PYTHONPATH=$VERIF_REPO/lib); VERIF_SEED only rotates which slice of a fully enumerated thorough space the quick tier adds to its fixed core. Known findings: known_findings.json. Seeded breaking changes: seeded/.',
    'not_applicable': [{'property_id': k, 'reason': v} for k, v in sorted(NOT_APPLICABLE.items())],
}
json.dump(m, open(os.path.join(HERE, 'MANIFEST.json'), 'w'), indent=1)
print('MANIFEST.json: %d checks, %d not_applicable' % (len(checks), len(NOT_APPLICABLE)))
