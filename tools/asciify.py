#!/usr/bin/env python3
"""Replace literal non-ASCII characters in our Python sources by \\uXXXX escapes (they only occur in string literals)."""
import sys, glob, os
HERE = os.path.dirname(os.path.dirname(os.path.abspath(__file__)))
for p in glob.glob(os.path.join(HERE, 'vf', '**', '*.py'), recursive=True):
    s = open(p, encoding='utf-8').read()
    if all(ord(c) < 128 for c in s):
        continue
    s2 = ''.join(c if ord(c) < 128 else ('\\u%04x' % ord(c) if ord(c) < 0x10000 else '\\U%08x' % ord(c)) for c in s)
    open(p, 'w').write(s2)
    print('asciified', p)
