"""Canary targets: anything a document could name.  Every call, instantiation, state restoration, attribute write or item
insertion is recorded in EVENTS; a loader that is confined to plain data never adds to it."""
EVENTS = []
VALUE = 42
MARK = object()


def f(*a, **k):
    EVENTS.append(('call', 'f'))
    return 'f-was-called'


def g():
    EVENTS.append(('call', 'g'))
    return []


class K:
    def __new__(cls, *a, **k):
        EVENTS.append(('new', cls.__name__))
        return object.__new__(cls)

    def __init__(self, *a, **k):
        EVENTS.append(('init', type(self).__name__))

    def __setstate__(self, st):
        EVENTS.append(('setstate', type(self).__name__))

    def __setattr__(self, k, v):
        EVENTS.append(('setattr', k))
        object.__setattr__(self, k, v)

    def append(self, x):
        EVENTS.append(('append',))

    def extend(self, x):
        EVENTS.append(('extend',))

    def __setitem__(self, k, v):
        EVENTS.append(('setitem',))


class L(list):
    def __init__(self, *a):
        EVENTS.append(('init', 'L'))
        list.__init__(self)

    def append(self, x):
        EVENTS.append(('append',))
        list.append(self, x)

    def extend(self, x):
        EVENTS.append(('extend',))
        list.extend(self, x)


class Meta(type):
    def __call__(cls, *a, **k):
        EVENTS.append(('metacall', cls.__name__))
        return type.__call__(cls, *a, **k)


class M(metaclass=Meta):
    pass


class It:
    """an iterator object: stepping it is a call"""

    def __iter__(self):
        return self

    def __next__(self):
        EVENTS.append(('next', 'It'))
        return 'stepped'


ITER = It()
LISTITER = iter([1, 2, 3])


def _gen():
    EVENTS.append(('next', 'gen'))
    yield 'from-generator'
    EVENTS.append(('next', 'gen-2'))


GEN = _gen()
INSTANCE = K.__new__(K)
EVENTS.clear()


def __getattr__(name):
    EVENTS.append(('module-getattr', name))
    raise AttributeError(name)
