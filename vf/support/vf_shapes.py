"""Importable classes used by checks that need "constructed objects" (C13) and reduction shapes (C17)."""


class Plain:
    """ordinary instance-dict class"""

    def __init__(self, **kw):
        self.__dict__.update(kw)

    def __eq__(self, other):
        return type(other) is type(self) and self.__dict__ == other.__dict__

    __hash__ = object.__hash__

    def __repr__(self):
        return 'Plain(%s)' % ', '.join('%s=%r' % kv for kv in sorted(self.__dict__.items()) if kv[1] is not self)
