"""Importable classes used by checks that need "constructed objects" (C13) and reduction shapes (C17)."""


class Plain:
    """ordinary instance-dict class"""

    def __init__(self, **kw):
        self.__dict__.update(kw)

    def __eq__(self, other):
        return type(other) is type(self) and self.__dict__ == other.__dict__

    __hash__ = object.__hash__

    def __repr__(self):
        return 'Plain(%s)' % ', '.join('%s=%r' % kv for kv in sorted(self.__dict__.items()) if kv[1] is not self)


# ---------------------------------------------------------------------------------------------------------
# reduction shapes for C17.  Every class defines __eq__ structurally only where pickle itself needs nothing;
# comparison in the check is done by an external canonical walk, not by these methods.
import collections, enum


class Slots:
    __slots__ = ('x', 'y')

    def __init__(self, x=None, y=None):
        self.x = x
        self.y = y


class SlotsDict:
    __slots__ = ('x', '__dict__')

    def __init__(self, x=None, **kw):
        self.x = x
        self.__dict__.update(kw)


class StateDict:
    """__getstate__/__setstate__ with a dict state that is NOT the instance dict"""

    def __init__(self, a=None, b=None):
        self.a = a
        self.b = b
        self.cache = 'not pickled'

    def __getstate__(self):
        return {'A': self.a, 'B': self.b}

    def __setstate__(self, st):
        self.a = st['A']
        self.b = st['B']
        self.cache = 'rebuilt'


class StateTuple:
    def __init__(self, a=None, b=None):
        self.a = a
        self.b = b

    def __getstate__(self):
        return (self.a, self.b)

    def __setstate__(self, st):
        self.a, self.b = st


class StateFalsy:
    """state is a falsy non-None value; pickle still calls __setstate__ with it"""

    def __init__(self):
        self.restored = 'never'

    def __getstate__(self):
        return 0

    def __setstate__(self, st):
        self.restored = ('setstate', st)


class NewArgs:
    def __new__(cls, a=None, b=None):
        self = object.__new__(cls)
        self.frozen = (a, b)
        return self

    def __getnewargs__(self):
        return self.frozen

    def __init__(self, *a, **k):
        pass


class ReduceArgs:
    def __init__(self, a=None, b=None):
        self.a = a
        self.b = b

    def __reduce__(self):
        return (ReduceArgs, (self.a, self.b))


class ReduceState:
    def __init__(self, a=None):
        self.a = a
        self.extra = None

    def __reduce__(self):
        return (ReduceState, (self.a,), {'extra': self.extra})


class ReduceList(list):
    def __init__(self, tag=None):
        list.__init__(self)
        self.tag = tag

    def __reduce__(self):
        return (ReduceList, (self.tag,), None, iter(list(self)))


class ReduceDict(dict):
    def __init__(self, tag=None):
        dict.__init__(self)
        self.tag = tag

    def __reduce__(self):
        return (ReduceDict, (self.tag,), None, None, iter(list(self.items())))


class ReduceAll(list):
    """all five reduce fields"""

    def __init__(self, tag=None):
        list.__init__(self)
        self.tag = tag
        self.d = {}
        self.extra = None

    def __setitem__(self, k, v):
        if isinstance(k, int) or isinstance(k, slice):
            list.__setitem__(self, k, v)
        else:
            self.d[k] = v

    def __reduce__(self):
        return (ReduceAll, (self.tag,), {'extra': self.extra}, iter(list(self)), iter(list(self.d.items())))

    def __setstate__(self, st):
        self.extra = st['extra']


def make_factory(a, b):
    """module-level function used as a reduce callable"""
    return ReduceArgs(a, b)


class ReduceFunc:
    def __init__(self, a=None):
        self.a = a

    def __reduce__(self):
        return (make_factory, (self.a, 'via-function'))


class ListSub(list):
    pass


class DictSub(dict):
    pass


class SetSub(set):
    pass


class TupleSub(tuple):
    pass


class IntSub(int):
    pass


class StrSub(str):
    pass


class Color(enum.Enum):
    RED = 1
    GREEN = 'g'


class Perm(enum.IntFlag):
    R = 4
    W = 2


Point = collections.namedtuple('Point', 'x y')


def a_function(x):
    return x


class ReduceNoArgs:
    """__reduce__ -> (cls, (), state): pickle calls cls() (so __init__ runs) and then restores the state"""

    def __init__(self):
        self.made_by_init = 'yes'
        self.extra = None

    def __reduce__(self):
        return (ReduceNoArgs, (), {'extra': self.extra})


class ReduceNoArgsNoState:
    def __init__(self):
        self.made_by_init = 'yes'

    def __reduce__(self):
        return (ReduceNoArgsNoState, ())


class DictItemsOnly:
    """not a dict: dictitems are re-applied through __setitem__ only"""

    def __init__(self):
        self.store = {}          # order-insensitive: with sort_keys on the dumper may re-apply the items in sorted order

    def __setitem__(self, k, v):
        self.store[k] = v

    def __reduce__(self):
        return (DictItemsOnly, (), None, None, iter(list(self.store.items())))


class SetItemDict(dict):
    """dict subclass whose __setitem__ keeps a reverse index"""

    def __init__(self):
        dict.__init__(self)
        self.reverse = {}

    def __setitem__(self, k, v):
        dict.__setitem__(self, k, v)
        self.reverse[str(v)] = k

    def __reduce__(self):
        return (SetItemDict, (), None, None, iter(list(self.items())))


class CopyregArgs:
    """reduced through copyreg.dispatch_table (copyreg.pickle below), not through a method: the registered reducer
    rebuilds from the constructor argument and deliberately leaves the attribute `scratch` out"""

    def __init__(self, a):
        self.a = a
        self.scratch = None


def _reduce_copyreg_args(obj):
    return (CopyregArgs, (obj.a,))


class CopyregState:
    """registered reducer with state and list items; the class itself cannot be reduced by default (__reduce_ex__ raises)"""

    def __init__(self, a=None):
        self.a = a
        self.items = []

    def append(self, x):
        self.items.append(x)

    def extend(self, xs):
        for x in xs:
            self.append(x)

    def __reduce_ex__(self, protocol):
        raise TypeError('cannot reduce CopyregState objects by default')


def _reduce_copyreg_state(obj):
    return (CopyregState, (), {'a': obj.a}, iter(list(obj.items)))


import copyreg
copyreg.pickle(CopyregArgs, _reduce_copyreg_args)
copyreg.pickle(CopyregState, _reduce_copyreg_state)


class SlotsBase:
    __slots__ = ('x',)


class SlotsSubDict(SlotsBase):
    """inherits a slot and has an instance dict of its own (no __slots__ in the subclass)"""


class SlotsSubSlots(SlotsBase):
    __slots__ = ('y',)


class SlotsUnset:
    """some slots are never assigned"""
    __slots__ = ('x', 'y', 'z')


class Outer:
    """a class, a plain function and a static method that live in a class body: reachable only by qualified name"""

    class Inner:
        def __init__(self, a=None):
            self.a = a

    def method(self):
        return 1

    @staticmethod
    def smethod():
        return 2
