"""Importable but never imported by the harness: its presence in sys.modules means a document caused an import."""
import builtins
builtins._vf_canary_cold_imported = True


def f(*a, **k):
    return 'cold-called'
