"""A package the harness imports; its submodule cold_sub is importable but never imported."""
VALUE = 1
