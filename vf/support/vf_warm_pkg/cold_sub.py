import builtins
builtins._vf_canary_cold_imported = True


def f(*a, **k):
    return 'cold-called'
