"""Importable package that the harness never imports: its presence in sys.modules means a document caused an import."""
import builtins
builtins._vf_canary_cold_imported = True
