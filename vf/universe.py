"""Shared value / option universes (C02, C06 tier 2, C12, C15, C16).  All generators are deterministic and
enumerate each member exactly once."""
import itertools, datetime

# 38-symbol string alphabet: letters, digit, every kind of white space / break, BOM, non-ASCII, astral, controls, all indicators
STR_SIGMA = ['a', 'A', '0', ' ', '\n', '\t', '\r', '\x85', '\u2028', '\u2029', '\ufeff', '\u00e9', '\U0001F600', '\x07', '\x7f', '\u00a0',
             '\ufffe', '-', ':', '#', ',', '[', ']', '{', '}', '?', '!', '&', '*', '|', '>', "'", '"', '%', '@', '`', '\\', '.', '~', '=', '<']
assert len(STR_SIGMA) == 41
STR_CORE = ['a', ' ', '\n', '\t', '\r', '\x85', '\u2028', '\u00e9', '\x07', '-', ':', '#', ',', '[', '{', '?', '!', "'", '"', '\\']
# first / last members of every character range the reader and the emitter distinguish (printable or not, escaped or not)
BOUNDARY = ['\x1f', '\x7e', '\x7f', '\x80', '\x84', '\x85', '\x86', '\x9f', '\xa0', '\xa1', '\xff', '\u0100', '\u2027', '\u2028', '\u2029', '\u202a', '\ud7ff', '\ue000', '\ue001',
            '\uf8ff', '\uff21', '\ufffc', '\ufffd', '\ufffe', '\uffff', '\U00010000', '\U0001F600', '\U0010fffe', '\U0010ffff', '\ufeff']
FOLD_PIECES = ['aaa', 'b', ' ', '  ', '\n', '\n\n', '\n ', ' \n', '...', '---']

D = datetime
LEAVES = [None, True, False, 0, 1, -1, 255, 10 ** 20, -10 ** 20, 0.0, -0.0, 1.5, 1e17, 1e-7, 5e-324, float('inf'), float('-inf'), float('nan'),
          b'', b'a', b'\x00\xff', bytes(range(60)), D.date(2001, 1, 1), D.datetime(2001, 1, 1, 10, 11, 12), D.datetime(2001, 1, 1, 10, 11, 12, 500),
          D.datetime(2001, 1, 1, 10, 11, 12, tzinfo=D.timezone.utc), D.datetime(2001, 1, 1, 10, 11, 12, tzinfo=D.timezone(D.timedelta(hours=5, minutes=30))),
          D.datetime(2001, 1, 1, 10, 11, 12, 7, tzinfo=D.timezone(D.timedelta(minutes=-1))), D.date(1, 1, 1), D.date(9999, 12, 31),
          D.datetime(9999, 12, 31, 23, 59, 59, 999999), '', 'a', 'yes', '1', '~', '1:30', '<<', 'a b', 'a\nb', ' a', 'a ', '- a', 'a: b', '#a', "it's", 'multi\nline\n', '\u00e9',
          # UTC offsets that are not whole minutes (Python >= 3.7; zoneinfo's local-mean-time offsets are of this kind)
          D.datetime(1930, 1, 1, 10, 11, 12, tzinfo=D.timezone(D.timedelta(minutes=19, seconds=32))), D.datetime(2001, 1, 1, 0, 0, 0, 5, tzinfo=D.timezone(-D.timedelta(seconds=1, microseconds=500)))]
KEYABLE = [None, True, 0, 1, 1.5, 'a', 'b', '', 'yes', '1', b'a', D.date(2001, 1, 1), 'a\nb', 'k: v', '? ', '- x', ' lead', '\u00e9', 10 ** 20]

AXES = [
    ('default_style', [None, '"', "'", '|', '>']),
    ('default_flow_style', [False, True, None]),
    ('canonical', [None, True]),
    ('indent', [None, 1, 2, 3, 9, 10]),
    ('width', [None, 3, 5, 10, 20, 10 ** 6]),
    ('allow_unicode', [None, True]),
    ('line_break', [None, '\n', '\r', '\r\n', 'x']),
    ('encoding', [None, 'utf-8', 'utf-16-le', 'utf-16-be']),
    ('explicit_start', [None, True]),
    ('explicit_end', [None, True]),
    ('version', [None, (1, 1), (1, 2)]),
    ('tags', [None, {'!e!': 'tag:e.com,2000:'}]),
    ('sort_keys', [True, False]),
]
AXIS = dict(AXES)


def option_sets(maxdev, axes=None):
    """every option set that differs from the defaults in at most maxdev axes (each axis over its full value list)"""
    axes = [a for a in AXES if axes is None or a[0] in axes]
    yield {}
    for d in range(1, maxdev + 1):
        for combo in itertools.combinations(axes, d):
            for vals in itertools.product(*[a[1][1:] for a in combo]):
                yield {a[0]: v for a, v in zip(combo, vals)}


def option_product(names):
    """full product over the named axes"""
    for vals in itertools.product(*[AXIS[n] for n in names]):
        o = {n: v for n, v in zip(names, vals) if v != AXIS[n][0]}
        yield o


def strings(alpha, maxlen, minlen=0):
    for n in range(minlen, maxlen + 1):
        for t in itertools.product(alpha, repeat=n):
            yield ''.join(t)


def fold_words(maxpieces, minpieces=1):
    for n in range(minpieces, maxpieces + 1):
        for t in itertools.product(FOLD_PIECES, repeat=n):
            yield ''.join(t)


def lookalikes():
    """texts that an independent YAML 1.1 recogniser types as non-str (so a str with this text must be quoted)"""
    from .oracles import ref11
    out = []
    seen = set()
    kws = ['yes', 'no', 'true', 'false', 'on', 'off', 'null', '~', '.inf', '.nan', '<<', '=', 'y', 'n', '-.inf', '+.inf']
    for w in kws:
        for bits in itertools.product((0, 1), repeat=len(w)):
            s = ''.join(c.upper() if b else c.lower() for c, b in zip(w, bits))
            if s not in seen:
                seen.add(s); out.append(s)
    alpha = list('0179+-_.:exb') + ['a', 'F']
    for s in strings(alpha, 3, 1):
        if s not in seen and ref11.classify(s) != frozenset(['str']):
            seen.add(s); out.append(s)
    for s in ['2001-01-01', '2001-1-1 1:00:00', '2001-01-01T10:00:00Z', '2001-01-01 10:00:00.5 +5', '190:20:30', '190:20:30.15', '0x_0A', '0b1_0',
              '1_000', '1e+5', '1.5e+5', '6.8523015e+5', '0o7', '017', '+1', '-0', '.5', '-.5', '1.', '1_.', '2001-13-45', '0x_', '1:60', '-1:59']:
        if s not in seen:
            seen.add(s); out.append(s)
    return out


def thresholds():
    out = []
    for n in (127, 128, 129, 1023, 1024, 1025):
        out.append('k' * n)
        out.append('w ' * (n // 2))
    return out


def escaped_keys():
    """strings that are short in characters but long when written with escapes: every unit whose double-quoted form
    takes 2..10 positions, repeated so that the raw length sits at the 128 simple-key threshold or the written length
    at the reader's 1024 simple-key limit; plus two mixtures"""
    out = []
    for unit, esc in (('\U0001F600', 10), ('\u20ac', 6), ('\xe9', 4), ('\x01', 4), ('"', 2), ('\\', 2), ('\x85', 2)):
        ns = {126, 127, 128}
        for w in (1016, 1020, 1022, 1024, 1026, 1030):
            n = w // esc
            if n <= 130:
                ns.update((n - 1, n, n + 1))
        for n in sorted(ns):
            out.append(unit * n)
    out.append('\U0001F600' * 76 + '\u20ac' * 51)
    out.append('a' * 60 + '\U0001F600' * 67)
    return out


def containers():
    """list/dict/set shapes with <= 4 nodes over a small leaf pool, plus sharing / recursion patterns.  Yields (name, factory)."""
    pool = [None, 1, 'a', '', 1.5, 'yes']
    yield 'empty-list', lambda: []
    yield 'empty-dict', lambda: {}
    yield 'empty-set', lambda: set()
    for x in pool:
        yield 'list1-%r' % (x,), lambda x=x: [x]
        yield 'dict1-%r' % (x,), lambda x=x: {'k': x}
        yield 'dictk-%r' % (x,), lambda x=x: {x: 'v'}
        yield 'set1-%r' % (x,), lambda x=x: {x}
        yield 'nest-%r' % (x,), lambda x=x: [[x]]
        yield 'nest2-%r' % (x,), lambda x=x: {'k': [x]}
        yield 'nest3-%r' % (x,), lambda x=x: [{'k': x}]
        yield 'nest4-%r' % (x,), lambda x=x: {'k': {'j': x}}
    for x, y in itertools.product(pool, repeat=2):
        yield 'list2-%r-%r' % (x, y), lambda x=x, y=y: [x, y]
        yield 'list-in-%r-%r' % (x, y), lambda x=x, y=y: [x, [y]]
        yield 'dictv-%r-%r' % (x, y), lambda x=x, y=y: {'a': x, 'b': y}
        if x != y:
            yield 'dictkk-%r-%r' % (x, y), lambda x=x, y=y: {x: 1, y: 2}
            yield 'set2-%r-%r' % (x, y), lambda x=x, y=y: {x, y}
        yield 'mixed-%r-%r' % (x, y), lambda x=x, y=y: [{'k': x}, [y], set()]
    yield 'list-of-empties', lambda: [[], {}, set(), '', None]
    yield 'dict-of-empties', lambda: {'a': [], 'b': {}, 'c': set(), 'd': '', 'e': None}
    yield 'deep10', lambda: _deep(10)
    yield 'deep50', lambda: _deep(50)
    yield 'deepdict30', lambda: _deepd(30)

    def shared_list():
        s = [1, 2]
        return [s, s]
    yield 'shared-list', shared_list

    def shared_dict():
        s = {'a': 1}
        return {'x': s, 'y': s, 'z': [s]}
    yield 'shared-dict', shared_dict

    def shared_set():
        s = {1, 2}
        return [s, {'k': s}]
    yield 'shared-set', shared_set

    def self_list():
        r = [1]
        r.append(r)
        return r
    yield 'self-list', self_list

    def self_dict():
        r = {'a': 1}
        r['me'] = r
        return r
    yield 'self-dict', self_dict

    def mutual():
        a = []
        b = {'a': a}
        a.append(b)
        return a
    yield 'mutual', mutual

    def self_list_under_map():
        r = []
        r.append(r)
        return {'k': r}
    yield 'self-list-under-map', self_list_under_map

    def self_dict_under_list_under_map():
        d = {'a': 1}
        d['me'] = d
        return {'outer': [d], 'again': d}
    yield 'self-dict-under-map', self_dict_under_list_under_map

    def cycle_through_map_value():
        a = []
        b = {'v': a}
        a.append(b)
        return {'root': {'inner': a}}
    yield 'cycle-under-nested-map', cycle_through_map_value

    def self_set_holder():
        r = [1]
        r.append([r, {'k': r}])
        return {'x': [r], 'y': {'z': r}}
    yield 'self-list-two-ways', self_set_holder

    def two_parents():
        leaf = ['x']
        return {'p': [leaf], 'q': {'k': leaf}}
    yield 'two-parents', two_parents

    def equal_not_shared():
        return [[1, 2], [1, 2], {'a': 1}, {'a': 1}]
    yield 'equal-not-shared', equal_not_shared

    def shared_empty():
        e = []
        d = {}
        return [e, e, d, d]
    yield 'shared-empty', shared_empty

    def nested_shared():
        inner = [1]
        outer = [inner, inner]
        return [outer, outer, inner]
    yield 'nested-shared', nested_shared

    def mixed_keys_unsortable():
        return {1: 'a', 'b': 2, None: 3}
    yield 'mixed-keys', mixed_keys_unsortable

    def leaves_all():
        return list(LEAVES)
    yield 'all-leaves-list', leaves_all

    def keys_all():
        return {k: i for i, k in enumerate(KEYABLE)}
    yield 'all-keyable', keys_all

    def set_all():
        return set(KEYABLE)
    yield 'set-keyable', set_all


def _deep(n):
    x = 'leaf'
    for i in range(n):
        x = [x] if i % 2 else {'k': x}
    return x


def _deepd(n):
    x = {}
    for i in range(n):
        x = {'k%d' % i: x, 'v': i}
    return x


def place_string(s):
    """the string at root and in every structural placement (one composite value)"""
    return [('root', s),
            ('composite', {'lst': [s, [s]], s: s, 'set': {s}, 'deep': [[[[{'k': s}]]]]})]
