"""Known findings: genuine defects recorded rather than repaired.

/verif/known_findings.json is read-only at run time.  An entry downgrades a
violating case to KNOWN-FINDING only if property, sub-check, failure kind AND
the entry's input predicate (a named function in vf/known_preds.py, evaluated
on the *case*, never on "some violation happened") all match.  `fixed` entries
suppress nothing.
"""
import os, json

_HERE = os.path.dirname(os.path.dirname(os.path.abspath(__file__)))
_DB = None


def _db():
    global _DB
    if _DB is None:
        try:
            _DB = json.load(open(os.path.join(_HERE, 'known_findings.json')))
        except FileNotFoundError:
            _DB = {'findings': [], 'fixed': []}
    return _DB


def entries(pid):
    return [e for e in _db()['findings'] if e['property'] == pid]


def match(pid, sub, kind, case, detail=''):
    from . import known_preds
    for e in entries(pid):
        es = e.get('sub')
        if es is not None and (sub not in es if isinstance(es, list) else es != sub):
            continue
        ek = e.get('kind')
        if ek is not None and (kind not in ek if isinstance(ek, list) else ek != kind):
            continue
        pred = getattr(known_preds, e['pred'])
        try:
            if pred(case, detail):
                return e['id']
        except Exception:
            continue
    return None
