"""Monitors for C01 / C04: what a load did besides building plain data.

arm()/disarm() bracket exactly one library call.  Recorded while armed:
  * audit events: import (a module not yet in sys.modules is being imported), exec, compile, open, os.* process and
    file events, subprocess, socket, ctypes, pickle.find_class, marshal.loads
  * with profile=True: every Python-level call whose code lives outside the allow-listed files (lib/yaml of the tree under
    test + the stdlib files a benign core-tag corpus was observed to use), and every C call of a deny-listed builtin
  * canary events (vf_canary.EVENTS), import of vf_canary_cold, change of the set of sys.modules keys
"""
import builtins, os, sys

_STATE = {'armed': False, 'events': [], 'guard': False}
AUDIT_PREFIXES = ('import', 'exec', 'compile', 'open', 'os.', 'subprocess.', 'socket.', 'ctypes.', 'pickle.find_class', 'marshal.', 'shutil.', 'builtins.input', 'code.__new__', 'function.__new__')
_installed = False


# what a document must not be able to do to the machine that runs the check, even on a tree where the loader really
# calls what the document names: refused (the call raises Blocked) while a guard is on - recorded as well when armed
BLOCK_PREFIXES = ('os.fork', 'os.forkpty', 'os.exec', 'os.posix_spawn', 'os.spawn', 'os.system', 'os.startfile', 'subprocess.', 'pty.spawn',
                  'os.kill', 'os.killpg', 'signal.pthread_kill', 'os.remove', 'os.unlink', 'os.rmdir', 'os.rename', 'os.truncate', 'os.chmod',
                  'os.chown', 'os.mkdir', 'os.link', 'os.symlink', 'os.putenv', 'os.unsetenv', 'os.chdir', 'os.chroot', 'os.setxattr',
                  'os.removexattr', 'os.utime', 'os.lockf', 'os.chflags', 'shutil.', 'socket.', 'ctypes.', 'webbrowser.', 'urllib.', 'ftplib.',
                  'smtplib.', 'http.client.', 'tempfile.', 'resource.setrlimit', 'syslog.', 'fcntl.', 'mmap.', 'winreg.', 'msvcrt.', 'builtins.input',
                  'builtins.breakpoint')


class Blocked(RuntimeError):
    pass


def _writes(args):
    try:
        mode, flags = (args + (None, None, None))[1:3]
        if isinstance(mode, str):
            return any(c in mode for c in 'wax+')
        return isinstance(flags, int) and bool(flags & (os.O_WRONLY | os.O_RDWR | os.O_CREAT | os.O_TRUNC | os.O_APPEND))
    except Exception:
        return True


def _audit(event, args):
    if _STATE['armed'] and event.startswith(AUDIT_PREFIXES):
        try:
            a = repr(args[0])[:80] if args else ''
        except Exception:
            a = '?'
        _STATE['events'].append(('audit', event, a))
    if _STATE['guard'] and (event.startswith(BLOCK_PREFIXES) or (event == 'open' and _writes(args))):
        raise Blocked('%s refused while a document is being loaded' % event)


class guard:
    """with guard(): ... - process, file-system and network actions raise Blocked inside"""

    def __enter__(self):
        install()
        self.prev = _STATE['guard']
        _STATE['guard'] = True

    def __exit__(self, *a):
        _STATE['guard'] = self.prev


def install():
    global _installed
    if not _installed:
        sys.addaudithook(_audit)
        _installed = True


DENY_C = {builtins.__import__, builtins.eval, builtins.exec, builtins.compile, builtins.open, builtins.input, builtins.breakpoint}
DENY_C_MODULES = ('posix', 'os', 'nt', 'subprocess', '_posixsubprocess', 'socket', '_socket', '_ctypes', 'marshal', '_pickle', 'pickle', '_imp', 'importlib')


class Monitor:
    def __init__(self, harness_files=()):
        install()
        self.allowed_files = set()
        self.harness_files = set(harness_files) | {__file__}
        self.learning = False
        repo = os.path.realpath(os.environ.get('VERIF_REPO', '/repo'))
        self.yaml_dir = os.path.join(repo, 'lib', 'yaml') + os.sep
        import vf_canary, vf_warm_pkg
        self.canary = vf_canary
        self.mods_before = None

    def _prof(self, frame, event, arg):
        if event == 'call':
            fn = frame.f_code.co_filename
            if fn.startswith(self.yaml_dir) or fn in self.allowed_files or fn in self.harness_files:
                return
            if self.learning:
                self.allowed_files.add(fn)
            else:
                _STATE['events'].append(('pycall', fn, frame.f_code.co_name))
        elif event == 'c_call':
            try:
                if arg in DENY_C or getattr(arg, '__module__', None) in DENY_C_MODULES:
                    _STATE['events'].append(('ccall', getattr(arg, '__module__', None), getattr(arg, '__name__', repr(arg))))
            except TypeError:
                pass

    def learn(self, fn):
        """run a benign callable and allow-list the stdlib files it calls into"""
        self.learning = True
        sys.setprofile(self._prof)
        try:
            fn()
        finally:
            sys.setprofile(None)
            self.learning = False

    def arm(self, profile):
        _STATE['events'] = []
        del self.canary.EVENTS[:]
        self.mods_before = set(sys.modules)
        _STATE['armed'] = True
        if profile:
            sys.setprofile(self._prof)

    def disarm(self):
        sys.setprofile(None)
        _STATE['armed'] = False
        ev = list(_STATE['events'])
        ev += [('canary',) + tuple(e) for e in self.canary.EVENTS]
        new = set(sys.modules) - self.mods_before
        if new:
            ev.append(('sys.modules-grew', tuple(sorted(new))[:5]))
        if getattr(builtins, '_vf_canary_cold_imported', False) or 'vf_canary_cold' in sys.modules or any(m.startswith('vf_cold_pkg') or m == 'vf_warm_pkg.cold_sub' for m in sys.modules):
            ev.append(('cold-module-imported',))
        return ev


def selftest():
    m = Monitor()
    m.arm(True)
    ev = m.disarm()
    assert ev == [], ev
    m.arm(True)
    m.canary.f()
    eval('1')
    import json
    json.dumps([1])
    ev = m.disarm()
    kinds = {e[0] for e in ev}
    assert 'canary' in kinds and ('ccall' in kinds or 'audit' in kinds) and 'pycall' in kinds, ev
    m.arm(False)
    import importlib
    importlib.import_module('this') if False else None
    ev = m.disarm()
    assert ev == [], ev
    with guard():
        for act in (os.fork, lambda: os.system('true'), lambda: open('/var/tmp/vf-guard-probe', 'w'), lambda: os.remove('/var/tmp/vf-guard-probe')):
            try:
                act()
            except Blocked:
                continue
            raise AssertionError('not blocked: %r' % (act,))
        open(__file__).close()
    assert not _STATE['guard']
