"""E1 generators: every member of a finite space exactly once, canonical order, shardable."""
import itertools, os, glob


def iter_strings(alpha, n, prefix=()):
    """all length-n sequences over alpha (list of str pieces) that start with prefix (tuple of indices)"""
    k = len(prefix)
    head = ''.join(alpha[i] for i in prefix)
    if n == k:
        yield head
        return
    for tail in itertools.product(alpha, repeat=n - k):
        yield head + ''.join(tail)


def iter_bytes(alpha, n, prefix=()):
    k = len(prefix)
    head = bytes(alpha[i] for i in prefix)
    if n == k:
        yield head
        return
    for tail in itertools.product(alpha, repeat=n - k):
        yield head + bytes(tail)


def string_jobs(tag, nalpha, maxlen, plen=2, minlen=0):
    """job descriptors (tag, n, prefix) covering all strings of length minlen..maxlen exactly once"""
    jobs = []
    for n in range(minlen, maxlen + 1):
        p = min(plen, n)
        for prefix in itertools.product(range(nalpha), repeat=p):
            jobs.append((tag, n, prefix))
    return jobs


def seqs_upto(pieces, maxlen, minlen=0):
    for n in range(minlen, maxlen + 1):
        for t in itertools.product(pieces, repeat=n):
            yield t


def corpus_files(max_bytes=400, exts=None):
    repo = os.environ.get('VERIF_REPO', '/repo')
    d = os.path.join(repo, 'tests', 'legacy_tests', 'data')
    out = []
    for f in sorted(glob.glob(os.path.join(d, '*'))):
        e = os.path.splitext(f)[1]
        if exts is not None and e not in exts:
            continue
        try:
            sz = os.path.getsize(f)
        except OSError:
            continue
        if 0 < sz <= max_bytes:
            out.append(f)
    return out


def edits1(text, alpha):
    """every truncation, deletion, substitution and insertion of one alphabet symbol (deviation bound 1)"""
    n = len(text)
    for i in range(n):
        yield ('trunc', i), text[:i]
    for i in range(n):
        yield ('del', i), text[:i] + text[i + 1:]
    for i in range(n):
        for a in alpha:
            if a != text[i]:
                yield ('sub', i, a), text[:i] + a + text[i + 1:]
    for i in range(n + 1):
        for a in alpha:
            yield ('ins', i, a), text[:i] + a + text[i:]
