"""Event descriptors (picklable / JSON-able tuples) <-> yaml event objects, and a generator of well-formed streams.

descriptor forms
  ('SS',) ('SE',)
  ('DS', explicit, version|None, tags|None)      tags = tuple of (handle, prefix) pairs
  ('DE', explicit)
  ('SEQ_S', anchor, tag, implicit, flow)  ('SEQ_E',)
  ('MAP_S', anchor, tag, implicit, flow)  ('MAP_E',)
  ('SCALAR', anchor, tag, (i0, i1), value, style)
  ('ALIAS', anchor)
"""
import itertools
import yaml


def build(d):
    k = d[0]
    if k == 'SS':
        return yaml.StreamStartEvent()
    if k == 'SE':
        return yaml.StreamEndEvent()
    if k == 'DS':
        tags = dict(d[3]) if d[3] else None
        return yaml.DocumentStartEvent(explicit=d[1], version=tuple(d[2]) if d[2] else None, tags=tags)
    if k == 'DE':
        return yaml.DocumentEndEvent(explicit=d[1])
    if k == 'SEQ_S':
        return yaml.SequenceStartEvent(d[1], d[2], d[3], flow_style=d[4])
    if k == 'SEQ_E':
        return yaml.SequenceEndEvent()
    if k == 'MAP_S':
        return yaml.MappingStartEvent(d[1], d[2], d[3], flow_style=d[4])
    if k == 'MAP_E':
        return yaml.MappingEndEvent()
    if k == 'SCALAR':
        return yaml.ScalarEvent(d[1], d[2], tuple(d[3]), d[4], style=d[5])
    if k == 'ALIAS':
        return yaml.AliasEvent(d[1])
    raise ValueError(d)


def build_all(ds):
    return [build(d) for d in ds]


_KIND = {'StreamStartEvent': 'SS', 'StreamEndEvent': 'SE', 'DocumentStartEvent': 'DS', 'DocumentEndEvent': 'DE',
         'SequenceStartEvent': 'SEQ_S', 'SequenceEndEvent': 'SEQ_E', 'MappingStartEvent': 'MAP_S', 'MappingEndEvent': 'MAP_E',
         'ScalarEvent': 'SCALAR', 'AliasEvent': 'ALIAS'}


def describe(e):
    k = _KIND[type(e).__name__]
    if k == 'DS':
        return (k, bool(e.explicit), tuple(e.version) if e.version else None, tuple(sorted(e.tags.items())) if e.tags else None)
    if k == 'DE':
        return (k, bool(e.explicit))
    if k in ('SEQ_S', 'MAP_S'):
        return (k, e.anchor, e.tag, bool(e.implicit), bool(e.flow_style))
    if k == 'SCALAR':
        return (k, e.anchor, e.tag, tuple(bool(i) for i in e.implicit), e.value, e.style or None)
    if k == 'ALIAS':
        return (k, e.anchor)
    return (k,)


def describe_all(es):
    return [describe(e) for e in es]


def fix(ds):
    """descriptors coming back from JSON: lists -> tuples"""
    def t(x):
        return tuple(t(i) for i in x) if isinstance(x, (list, tuple)) else x
    return [t(d) for d in ds]


# ------------------------------------------------------------------ well-formed stream builders

def S(value, style=None, implicit=(True, False), tag=None, anchor=None):
    return ('SCALAR', anchor, tag, tuple(implicit), value, style)


def P(value='k'):
    return S(value)


def doc(body, explicit=False, version=None, tags=None, end_explicit=False):
    return [('DS', explicit, version, tags)] + list(body) + [('DE', end_explicit)]


def stream(*docs):
    out = [('SS',)]
    for d in docs:
        out += d
    out.append(('SE',))
    return out


def seq(items, flow=False, anchor=None, tag=None, implicit=True):
    out = [('SEQ_S', anchor, tag, implicit, flow)]
    for it in items:
        out += it
    out.append(('SEQ_E',))
    return out


def mapping(pairs, flow=False, anchor=None, tag=None, implicit=True):
    out = [('MAP_S', anchor, tag, implicit, flow)]
    for k, v in pairs:
        out += k
        out += v
    out.append(('MAP_E',))
    return out


CONTEXTS = ['root', 'bseq', 'fseq', 'bmap-key', 'bmap-val', 'fmap-key', 'fmap-val', 'seq-in-seq', 'deep5', 'bmap-key2', 'seq-of-map']


def in_context(ctx, s):
    """body of a document with the scalar descriptor s placed in the named context"""
    s = [s]
    if ctx == 'root':
        return s
    if ctx == 'bseq':
        return seq([s, [P('z')]])
    if ctx == 'fseq':
        return seq([[P('y')], s], flow=True)
    if ctx == 'bmap-key':
        return mapping([(s, [P('v')])])
    if ctx == 'bmap-val':
        return mapping([([P('k')], s), ([P('j')], [P('w')])])
    if ctx == 'fmap-key':
        return mapping([(s, [P('v')])], flow=True)
    if ctx == 'fmap-val':
        return mapping([([P('k')], s)], flow=True)
    if ctx == 'seq-in-seq':
        return seq([seq([s]), s])
    if ctx == 'deep5':
        return seq([mapping([([P('k')], seq([mapping([([P('j')], seq([s, s]))])]))])])
    if ctx == 'bmap-key2':       # key after another pair, value a block sequence (indentless case)
        return mapping([([P('k')], seq([[P('x')]])), (s, seq([s]))])
    if ctx == 'seq-of-map':
        return seq([mapping([(s, s)]), mapping([([P('k')], s)], flow=True)])
    raise ValueError(ctx)


def trees(max_nodes, max_depth):
    """all node trees (as descriptor bodies) with <= max_nodes nodes over {scalar, alias, seq, map} x {block, flow};
    the first collection is anchored ('a') so that alias leaves are meaningful.  Yields bodies."""
    leafs = [[S('x')], [S('')], [S('a b', style='"')], [('ALIAS', 'a')]]

    def gen(n, depth, top):
        # yields (body, nodes_used)
        for lf in leafs[:3] if top else leafs:
            yield lf, 1
        if depth == 0 or n < 1:
            return
        for flow in (False, True):
            anchor = 'a' if top else None
            # sequences with k children
            for kids in children(n - 1, depth - 1):
                yield seq([b for b, _ in kids], flow=flow, anchor=anchor), 1 + sum(c for _, c in kids)
            for kids in children(n - 1, depth - 1, even=True):
                bs = [b for b, _ in kids]
                pairs = list(zip(bs[0::2], bs[1::2]))
                yield mapping(pairs, flow=flow, anchor=anchor), 1 + sum(c for _, c in kids)

    def children(budget, depth, even=False):
        # all lists of subtrees using <= budget nodes
        def rec(b, acc):
            if not even or len(acc) % 2 == 0:
                yield list(acc)
            if b <= 0:
                return
            for body, used in gen(b, depth, False):
                if used <= b:
                    acc.append((body, used))
                    yield from rec(b - used, acc)
                    acc.pop()
        yield from rec(budget, [])

    for body, used in gen(max_nodes, max_depth, True):
        yield body
