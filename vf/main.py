"""CLI:  ./check <ID> quick|thorough | ./check <ID> --replay <file> | ./check setup | ./check all <tier>"""
import os, sys, time, json, hashlib, subprocess, importlib, traceback

from . import engine, known

HERE = os.path.dirname(os.path.dirname(os.path.abspath(__file__)))
EVID = os.environ.get('VERIF_EVIDENCE_DIR') or os.path.join(HERE, 'evidence')
REPLAYS = os.environ.get('VERIF_REPLAYS_DIR') or os.path.join(HERE, 'replays')
SCHEMA = '/root/.vp/EVIDENCE.schema.json'
ALL_IDS = ['C%02d' % i for i in range(1, 21)]


def log(*a):
    print(*a, flush=True)


def load_mod(pid):
    return importlib.import_module('vf.props.' + pid.lower())


def validate_evidence(path):
    if not os.path.exists(SCHEMA):
        return True
    code = ('import json,sys,jsonschema\n'
            'jsonschema.validate(json.load(open(sys.argv[1])), json.load(open(sys.argv[2])))\n')
    for exe in ('/opt/veriftools/pyvenv/bin/python', 'python3-vt'):
        try:
            p = subprocess.run([exe, '-c', code, path, SCHEMA], capture_output=True, text=True, timeout=120)
        except (OSError, subprocess.TimeoutExpired):
            continue
        if p.returncode != 0:
            log('evidence does not validate:\n' + p.stderr[-1500:])
            return False
        return True
    return True   # validator unavailable: do not turn that into a failure


def write_replay(pid, v, mod):
    os.makedirs(REPLAYS, exist_ok=True)
    blob = json.dumps([v['sub'], v['kind'], v['case']], sort_keys=True, ensure_ascii=True)
    h = hashlib.sha1(blob.encode()).hexdigest()[:12]
    path = os.path.join(REPLAYS, '%s-%s.json' % (pid, h))
    doc = {'property': pid, 'sub': v['sub'], 'kind': v['kind'], 'case': v['case'], 'detail': v['detail'],
           'expected': v.get('expected'), 'observed': v.get('observed'),
           'replay': './check %s --replay %s' % (pid, path)}
    if hasattr(mod, 'snippet'):
        try:
            doc['snippet'] = mod.snippet(v['sub'], engine.unjson(v['case']))
        except Exception:
            pass
    with open(path, 'w') as f:
        json.dump(doc, f, indent=1, ensure_ascii=True)
    return path


def run_check(pid, tier, seed):
    t0 = time.time()
    mod = load_mod(pid)
    engine._assert_tree()
    try:
        if hasattr(mod, 'selftest'):
            mod.selftest()
    except Exception:
        log('harness error: oracle self-test of %s failed\n%s' % (pid, traceback.format_exc()))
        return 2
    jobs = mod.plan(tier, seed)
    if tier == 'thorough' and 'VERIF_JOB_LIMIT' not in os.environ:
        engine.JOB_LIMIT_S = 2400.0       # thorough jobs are larger; a hang is still found, just later
    log('%s %s seed=%d: %d jobs on %d workers (repo=%s)' % (pid, tier, seed, len(jobs), engine.NWORKERS, os.environ.get('VERIF_REPO')))
    try:
        agg = engine.run_jobs(mod.__name__, jobs, log)
        extra = mod.finalize(agg, tier, seed) if hasattr(mod, 'finalize') else {}
    except engine.HarnessError as e:
        log('harness error: %s' % e)
        return 2
    extra = extra or {}
    # violations: known-finding downgrade happened in the workers; here only reporting
    kf = known.entries(pid)
    known_hits = {k: v for k, v in agg.counters.items() if k.startswith('known:')}
    for e in kf:
        n = agg.counters.get('known:' + e['id'], 0)
        if n:
            log('KNOWN-FINDING: property=%s %s [%s; %d case(s) in this run]' % (pid, e['what'], e['id'], n))
    shown = 0
    seen_sig = set()
    paths = []
    for v in agg.violations:
        sig = (v['sub'], v['kind'])
        if sig in seen_sig and shown >= 8:
            continue
        seen_sig.add(sig)
        if shown >= 25:
            break
        p = write_replay(pid, v, mod)
        if p in paths:
            continue
        paths.append(p)
        log('VIOLATION property=%s replay=%s' % (pid, p))
        log('   sub=%s kind=%s case=%s %s' % (v['sub'], v['kind'], json.dumps(v['case'], ensure_ascii=True)[:300], v['detail'][:300]))
        shown += 1
    wall = time.time() - t0
    samples = []
    for sub in sorted(agg.samples):
        for c in agg.samples[sub]:
            samples.append({'sub': sub, 'case': c})
    samples = samples[:60]
    cov = {
        'evaluations': agg.evaluations,
        'distinct_nontrivial': agg.nontrivial,
        'rule': mod.RULE,
        'samples': samples,
        'exhaustive': bool(extra.pop('exhaustive', True)),
        'bounds': mod.bounds(tier, seed) if hasattr(mod, 'bounds') else {},
        'jobs': agg.jobs,
        'slowest_jobs': agg.slowest,
        'distinct_outcomes': len(agg.outcomes),
        'counters': {k: v for k, v in sorted(agg.counters.items()) if not k.startswith('known:')},
        'known_findings_matched': {k[6:]: v for k, v in sorted(known_hits.items())},
        'violation_signatures': dict(agg.sig_count),
    }
    if mod.LEVEL == 'model_checking':
        cov['states'] = agg.states
        cov['transitions'] = agg.transitions
        cov['traces_validated_against_impl'] = agg.counters.get('traces_validated_against_impl', agg.evaluations)
    cov.update(extra)
    ev = {
        'property_id': pid, 'tier': tier, 'seed': seed, 'level': mod.LEVEL, 'coverage': cov,
        'assumptions': list(getattr(mod, 'ASSUMPTIONS', [])), 'wall_s': round(wall, 2),
        'violations': agg.violation_total,
    }
    os.makedirs(EVID, exist_ok=True)
    path = os.path.join(EVID, pid + '.json')
    with open(path, 'w') as f:
        json.dump(ev, f, indent=1, ensure_ascii=True, sort_keys=True)
    ok = validate_evidence(path)
    log('%s %s: evaluations=%d nontrivial=%d outcomes=%d violations=%d known=%d wall=%.1fs' % (
        pid, tier, agg.evaluations, agg.nontrivial, len(agg.outcomes), agg.violation_total, sum(known_hits.values()), wall))
    import shutil
    shutil.rmtree('/var/tmp/vf-sbx-%d' % os.getpid(), ignore_errors=True)
    if not ok:
        return 2
    return 1 if agg.violation_total else 0


def run_replay(pid, path):
    mod = load_mod(pid)
    engine._assert_tree()
    doc = json.load(open(path))
    T = engine.Tally(pid=pid)
    getattr(mod, 'worker_init', lambda: None)()
    if doc['sub'] == 'harness':
        # a job that crashed: run that job again
        import pickle, traceback as _tb
        job = pickle.loads(bytes.fromhex(doc['case']['job_pickle']))
        try:
            mod.run_job(job, T)
        except BaseException:
            T.violation('harness', doc['kind'], doc['case'], detail=_tb.format_exc()[-1500:])
    else:
        mod.replay(doc['sub'], engine.unjson(doc['case']), T)
    if T.violation_total:
        for v in T.violations:
            log('VIOLATION property=%s replay=%s' % (pid, path))
            log('   sub=%s kind=%s %s' % (v['sub'], v['kind'], v['detail'][:600]))
        return 1
    if any(k.startswith('known:') for k in T.counters):
        log('KNOWN-FINDING: property=%s replayed case matches %s' % (pid, [k for k in T.counters if k.startswith('known:')]))
        return 0
    log('%s: replayed case does not violate the property on this tree' % pid)
    return 0


def setup():
    repo = os.environ.get('VERIF_REPO', '/repo')
    rc = subprocess.call([os.path.join(HERE, 'tools', 'build_ext.sh'), repo])
    if rc != 0:
        log('setup: C extension build failed')
        return 2
    engine._assert_tree()
    bad = 0
    for pid in claimed():
        try:
            mod = load_mod(pid)
            if hasattr(mod, 'selftest'):
                mod.selftest()
            log('setup: %s self-test ok' % pid)
        except Exception:
            bad += 1
            log('setup: %s self-test FAILED\n%s' % (pid, traceback.format_exc()))
    return 2 if bad else 0


def claimed():
    try:
        m = json.load(open(os.path.join(HERE, 'MANIFEST.json')))
        return [c['property_id'] for c in m['checks']]
    except Exception:
        return []


def main(argv):
    if not argv:
        log(__doc__)
        return 2
    if argv[0] == 'setup':
        return setup()
    seed = int(os.environ.get('VERIF_SEED', '0') or 0)
    if argv[0] == 'all':
        tier = argv[1] if len(argv) > 1 else os.environ.get('VERIF_TIER', 'quick')
        worst = 0
        for pid in claimed():
            rc = subprocess.call([os.path.join(HERE, 'check'), pid, tier])
            worst = max(worst, rc)
        return worst
    pid = argv[0].upper()
    if len(argv) >= 3 and argv[1] == '--replay':
        return run_replay(pid, argv[2])
    tier = argv[1] if len(argv) > 1 else os.environ.get('VERIF_TIER', 'quick')
    if tier not in ('quick', 'thorough'):
        log('tier must be quick or thorough')
        return 2
    return run_check(pid, tier, seed)


if __name__ == '__main__':
    sys.exit(main(sys.argv[1:]))
