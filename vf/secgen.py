"""Document generator shared by C01 (safe loaders) and C04 (full loaders): ctx[ tag kind ]."""
import sys, datetime

Y = 'tag:yaml.org,2002:'
CORE = ['null', 'bool', 'int', 'float', 'binary', 'timestamp', 'omap', 'pairs', 'set', 'str', 'seq', 'map']
SPECIAL = ['merge', 'value', 'yaml']
PY_EXACT = ['python/none', 'python/bool', 'python/str', 'python/unicode', 'python/bytes', 'python/int', 'python/long', 'python/float',
            'python/complex', 'python/list', 'python/tuple', 'python/dict']
PY_PREFIX = ['python/name:', 'python/module:', 'python/object:', 'python/object/new:', 'python/object/apply:']
OTHER = ['!', '!foo', '!<tag:example.com,2000:x>', '!<x>', '!!python/object', '!!python/name', '!!python', '!!python/foo:bar', '!!python/object/apply',
         '!!python/object/apply:', '!!python/name:', '!!pythonx', '!<tag:yaml.org,2002:python/object/apply:vf_canary.f>',
         '!<tag:yaml.org,2002:python%2Fobject%2Fapply:vf_canary.f>', '!!Python/object/apply:vf_canary.f', '!<!python/object/apply:vf_canary.f>']

KINDS = [("scalar-empty", "''"), ('scalar-x', 'x'), ('seq-empty', '[]'), ('seq-x', '[x]'), ('map-empty', '{}'), ('map-ab', '{a: b}'),
         ('long', '{args: [x], kwds: {a: b}, state: {a: b}, listitems: [x], dictitems: {a: b}}'), ('seq-args', '[1, 2]'),
         ('scalar-num', '1'), ('state-dunder', '{state: {__class__: x, append: y}, args: []}'),
         ('value-key-scalar', '{=: x}'), ('value-key-seq', '{=: [a, b]}'), ('value-key-map', '{=: {a: b}}'),
         # a scalar whose TEXT is that of the special keys (the tag, not the text, decides what a node is)
         ('scalar-value-text', '='), ('scalar-merge-text', '<<')]

CONTEXTS = ['root', 'seq-item', 'map-value', 'map-key', 'set-member', 'omap-value', 'pairs-value', 'aliased', 'merge', 'merge-list', 'nested',
            'second-doc', 'omap-entry', 'pairs-entry', 'deep', 'key-and-value', 'merge-overridden', 'mergelist-overridden', 'dup-key-overridden',
            'key-of-mapping-value', 'key-of-maplist-value']


# the tagged node below a collection that itself carries an explicit core tag - of the right kind or not (a constructor
# that does not look at its node's children must not make the document acceptable); the two that coincide with
# 'omap-entry' / 'pairs-entry' are left out
TYPED_CONTEXTS = ['under-%s-%s' % (t, pos) for t in CORE for pos in ('seq', 'mapval', 'mapkey')
                  if (t, pos) not in (('omap', 'seq'), ('pairs', 'seq'))] + ['set-merge-value']
TYPED_KINDS = ('scalar-x', 'seq-x', 'map-ab', 'long')


def in_context(ctx, node):
    """node is flow-syntax text 'TAG KIND'"""
    if ctx.startswith('under-'):
        _, t, pos = ctx.split('-')
        return {'seq': '!!%s [%s]\n', 'mapval': '!!%s {k: %s}\n', 'mapkey': '!!%s {? %s : v}\n'}[pos] % (t, node)
    if ctx == 'set-merge-value':
        return '!!set {<<: {k: %s}}\n' % node
    if ctx == 'root':
        return node + '\n'
    if ctx == 'seq-item':
        return '- a\n- %s\n- b\n' % node
    if ctx == 'map-value':
        return 'k: %s\nj: 1\n' % node
    if ctx == 'map-key':
        return '? %s\n: v\n' % node
    if ctx == 'set-member':
        return '!!set\n? %s\n? other\n' % node
    if ctx == 'omap-value':
        return '!!omap\n- k: %s\n' % node
    if ctx == 'pairs-value':
        return '!!pairs\n- k: %s\n- k: 2\n' % node
    if ctx == 'aliased':
        return '- &a %s\n- *a\n- [*a]\n' % node
    if ctx == 'merge':
        return 'k: v\n<<: %s\n' % node
    if ctx == 'merge-list':
        return '<<: [{a: 1}, %s]\n' % node
    if ctx == 'nested':
        return '!!seq [!!map {k: %s}, !!set {? %s}]\n' % (node, node)
    if ctx == 'second-doc':
        return '--- plain\n--- %s\n' % node
    if ctx == 'omap-entry':
        return '!!omap\n- %s\n' % node
    if ctx == 'pairs-entry':
        return '!!pairs\n- %s\n' % node
    if ctx == 'deep':
        return 'a: [{b: [{c: %s}]}]\n' % node
    if ctx == 'key-and-value':
        return '{? %s : %s}\n' % (node, node)
    if ctx == 'merge-overridden':      # an entry of an inline merge source that the mapping itself redefines
        return '{<<: {a: %s, b: 1}, a: 2}\n' % node
    if ctx == 'mergelist-overridden':
        return '{<<: [{a: 0}, {a: %s}], c: 3}\n' % node
    if ctx == 'dup-key-overridden':    # the first of two equal keys is overwritten: its value is still constructed
        return '{a: %s, a: 2}\n' % node
    if ctx == 'key-of-mapping-value':  # the tagged node is a key whose value is a mapping (where a merge key would stand)
        return '{? %s : {a: 1}, b: 2}\n' % node
    if ctx == 'key-of-maplist-value':
        return '? %s\n: [{a: 1}, {c: 3}]\nb: 2\n' % node
    if ctx == 'nested-py':
        return '!!python/tuple [!!python/list [%s], !!python/dict {k: %s}]\n' % (node, node)
    raise ValueError(ctx)


def tag_text(tag):
    """tag written as it appears in a document"""
    if tag.startswith('!'):
        return tag
    return '!<%s%s>' % (Y, tag.replace('%', '%25'))


def structural_tags():
    out = ['!!' + t for t in CORE + SPECIAL] + ['!!' + t for t in PY_EXACT] + list(OTHER)
    return out


CANARY_NAMES = ['vf_warm_pkg.cold_sub', 'vf_warm_pkg.cold_sub.f', 'vf_warm_pkg.VALUE', 'json.tool', 'vf_cold_pkg.sub.mod.f', 'vf_cold_pkg.sub.f', 'vf_cold_pkg.f', 'vf_cold_pkg.sub.mod', 'xml.dom.minidom.parse', 'wsgiref.simple_server.make_server', 'vf_canary.f', 'vf_canary.g', 'vf_canary.K', 'vf_canary.L', 'vf_canary.M', 'vf_canary.VALUE', 'vf_canary.INSTANCE', 'vf_canary.ITER', 'vf_canary.LISTITER', 'vf_canary.GEN', 'vf_canary.K.append', 'datetime.datetime.now', 'vf_canary.INSTANCE.append', 'vf_canary.missing',
                'vf_canary', 'vf_canary_cold.f', 'vf_canary_cold', 'wave.open', 'wave', 'nosuchmodule.x', 'nosuchmodule', '', '.', 'eval', 'exec', 'open', 'len',
                'builtins.eval', 'os.system', 'os.getcwd', 'os.path.join', 'subprocess.Popen', 'sys.exit', 'time.time', 'dict', 'list', 'type', 'object',
                'builtins.__import__', 'yaml.load', 'yaml.UnsafeLoader', 'vf_canary.K.append', 'vf_canary..f', 'vf_canary.f.', '__main__.x', 'datetime.datetime',
                'collections.OrderedDict', 'builtins.getattr', 'builtins.bytes', 'builtins.range', 'builtins.set', 'builtins.frozenset', 'builtins.staticmethod']


def module_names():
    """every module.attr of every module imported in this process (deterministic order)"""
    out = []
    for mn in sorted(sys.modules):
        m = sys.modules.get(mn)
        if m is None or not all(p.isidentifier() for p in mn.split('.')):
            continue
        if mn.startswith(('vf.', 'vf_canary', 'vf_cold', 'vf_warm')) or mn in ('vf', '__main__', '__mp_main__'):
            continue
        try:
            names = dir(m)
        except Exception:
            continue
        for a in names:
            if a.isidentifier():
                out.append(mn + '.' + a)
    return out


def registered_tags(base):
    """every exact tag and multi-constructor prefix registered on any subclass of `base` alive in the process"""
    seen = set()
    out = []
    stack = [base]
    while stack:
        c = stack.pop()
        if c in seen:
            continue
        seen.add(c)
        stack.extend(c.__subclasses__())
        for attr in ('yaml_constructors', 'yaml_multi_constructors'):
            for k in getattr(c, attr, {}) or {}:
                if isinstance(k, str) and (k, attr) not in seen:
                    seen.add((k, attr))
                    out.append((k, attr == 'yaml_multi_constructors'))
    return sorted(out)


PLAIN_TYPES = (type(None), bool, int, float, str, bytes, datetime.date, datetime.datetime, list, dict, set)


def walk_types(obj, allowed_extra=(), tuple_any=False):
    """returns a description of the first object whose type is not plain data, or None"""
    seen = set()
    stack = [(obj, False)]
    while stack:
        o, in_pairs_list = stack.pop()
        t = type(o)
        if t in (type(None), bool, int, float, str, bytes, datetime.date, datetime.datetime) or t in allowed_extra:
            continue
        if id(o) in seen:
            continue
        seen.add(id(o))
        if t is list:
            for i in o:
                stack.append((i, True))
        elif t is dict:
            for k, v in o.items():
                stack.append((k, False))
                stack.append((v, False))
        elif t is set:
            for i in o:
                stack.append((i, False))
        elif t is tuple and (tuple_any or (in_pairs_list and len(o) == 2)):
            for i in o:
                stack.append((i, False))
        else:
            return '%s object %.60r' % (t.__module__ + '.' + t.__qualname__, o)
    return None
