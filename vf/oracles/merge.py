"""O-merge: evaluates a composed node graph (yaml.compose output: tags, values, node identity) into Python data by the
YAML 1.1 merge / set / omap / pairs rules as the statement of C14 words them.  Shares no code with lib/yaml's constructor.

evaluate(node) -> value, or raises Reject(reason) where the rules say the document must be rejected.
Scalars: only the core tags the C14 generator uses (str, int, float, bool, null) are converted.
"""
T = 'tag:yaml.org,2002:'


class Reject(Exception):
    pass


class Unsupported(Exception):
    """the oracle does not define this document (outside the C14 alphabet)"""


def _kind(node):
    return type(node).__name__[:-4].lower()      # scalar / sequence / mapping


def evaluate(root):
    memo = {}          # id(node) -> value (containers are created first, filled afterwards: sharing and cycles work)
    in_eff = set()

    def scalar(node):
        t, v = node.tag, node.value
        if t == T + 'str':
            return v
        if t == T + 'int':
            return int(v)
        if t == T + 'float':
            return float(v)
        if t == T + 'bool':
            return {'true': True, 'false': False, 'yes': True, 'no': False, 'on': True, 'off': False}[v.lower()]
        if t == T + 'null':
            return None
        raise Unsupported('scalar tag %s' % t)

    def hashable(v):
        return not isinstance(v, (list, dict, set))

    def effective(node):
        """ordered (key, value) entries a mapping node contributes: merged entries it does not define itself + own"""
        if _kind(node) != 'mapping':
            raise Reject('merge source is not a mapping')
        if id(node) in in_eff:
            return []          # a mapping merging itself adds nothing it does not already define
        in_eff.add(id(node))
        try:
            result = {}
            own = {}
            for k, v in node.value:
                if k.tag == T + 'merge':
                    if _kind(v) == 'mapping':
                        sources = [v]
                    elif _kind(v) == 'sequence':
                        sources = list(v.value)
                        for s in sources:
                            if _kind(s) != 'mapping':
                                raise Reject('merge list item is not a mapping')
                    else:
                        raise Reject('merge value is neither a mapping nor a list of mappings')
                    contrib = {}
                    for s in reversed(sources):          # an earlier mapping of the list takes precedence
                        for kk, vv in effective(s):
                            contrib.pop(kk, None) if False else None
                            contrib[kk] = vv
                    for kk, vv in contrib.items():       # a later merge key takes precedence over an earlier one
                        result[kk] = vv
                elif k.tag == T + 'value':
                    raise Unsupported("'=' key")
                else:
                    kv = ev(k)
                    if not hashable(kv):
                        raise Reject('unhashable key')
                    own[kv] = ev(v)                      # last occurrence wins among equal keys
            for kk, vv in own.items():
                result[kk] = vv
            has_merge = any(k.tag == T + 'merge' for k, _ in node.value)
            return list(own.items()) if not has_merge else list(result.items())
        finally:
            in_eff.discard(id(node))

    def ev(node):
        if id(node) in memo:
            return memo[id(node)]
        k = _kind(node)
        t = node.tag
        if k == 'scalar':
            if t in (T + 'set', T + 'omap', T + 'pairs', T + 'map', T + 'seq'):
                raise Reject('%s on a scalar node' % t)
            v = memo[id(node)] = scalar(node)
            return v
        if t == T + 'seq':
            if k != 'sequence':
                raise Reject('!!seq on a mapping node')
            out = memo[id(node)] = []
            out.extend(ev(c) for c in node.value)
            return out
        if t == T + 'map':
            if k != 'mapping':
                raise Reject('!!map on a sequence node')
            out = memo[id(node)] = {}
            for kk, vv in effective(node):
                out[kk] = vv
            return out
        if t == T + 'set':
            if k != 'mapping':
                raise Reject('!!set on a non-mapping node')
            out = memo[id(node)] = set()
            for kk, vv in effective(node):
                out.add(kk)
            return out
        if t in (T + 'omap', T + 'pairs'):
            if k != 'sequence':
                raise Reject('%s on a non-sequence node' % t)
            out = memo[id(node)] = []
            for item in node.value:
                if _kind(item) != 'mapping':
                    raise Reject('%s entry is not a mapping' % t)
                if len(item.value) != 1:
                    raise Reject('%s entry does not have exactly one pair' % t)
                kn, vn = item.value[0]
                out.append((ev(kn), ev(vn)))
            return out
        raise Unsupported('tag %s' % t)

    return ev(root)


def has_merge_anywhere(node, seen=None):
    seen = set() if seen is None else seen
    if id(node) in seen:
        return False
    seen.add(id(node))
    k = _kind(node)
    if k == 'mapping':
        return any(kn.tag == T + 'merge' or has_merge_anywhere(kn, seen) or has_merge_anywhere(vn, seen) for kn, vn in node.value)
    if k == 'sequence':
        return any(has_merge_anywhere(c, seen) for c in node.value)
    return False


def selftest():
    """hand-built node graphs (the composer is code under test and must not be needed by an oracle self-test)"""
    import yaml

    def S(v, t='str'):
        return yaml.ScalarNode(T + t, str(v))

    def I(v):
        return S(v, 'int')

    def M(*pairs, tag='map'):
        return yaml.MappingNode(T + tag, [(k if isinstance(k, yaml.Node) else S(k), v) for k, v in pairs])

    def Q(*items, tag='seq'):
        return yaml.SequenceNode(T + tag, list(items))
    MERGE = lambda: S('<<', 'merge')
    assert evaluate(M(('a', I(1)), ('b', I(2)), ('a', I(3)))) == {'a': 3, 'b': 2}
    assert list(evaluate(M(('b', I(1)), ('a', I(2))))) == ['b', 'a']
    m = M(('a', I(1)), ('b', I(2)))
    n = M(('b', I(5)), ('c', I(6)))
    assert evaluate(Q(m, M((MERGE(), m), ('b', I(3))))) == [{'a': 1, 'b': 2}, {'a': 1, 'b': 3}]
    assert evaluate(Q(M((MERGE(), Q(m, n))), M((MERGE(), Q(n, m))))) == [{'a': 1, 'b': 2, 'c': 6}, {'a': 1, 'b': 5, 'c': 6}]
    assert evaluate(M((MERGE(), M(('a', I(1)))), (MERGE(), M(('a', I(2)))))) == {'a': 2}
    n2 = M((MERGE(), m), ('b', I(9)))
    assert evaluate(M((MERGE(), n2), ('c', I(3)))) == {'a': 1, 'b': 9, 'c': 3}
    assert evaluate(M((S('<<'), I(1)), ('a', I(2)))) == {'<<': 1, 'a': 2}
    selfm = M(('k', I(1)))
    selfm.value.insert(0, (MERGE(), selfm))
    assert evaluate(selfm) == {'k': 1}
    for bad in (M((MERGE(), S('x'))), M((MERGE(), Q(S('x')))), M((Q(S('a')), I(1))), Q(S('a'), tag='set'), M(('a', I(1)), tag='omap'), Q(S('a'), tag='omap'),
                Q(M(('a', I(1)), ('b', I(2))), tag='omap'), Q(M(), tag='pairs'), Q(M((MERGE(), M((Q(S('x')), I(1))))))):
        try:
            evaluate(bad)
        except Reject:
            continue
        raise AssertionError('O-merge accepted %r' % (bad,))
    assert evaluate(M(('a', S('', 'null')), ('b', S('', 'null')), tag='set')) == {'a', 'b'}
    assert evaluate(Q(M(('a', I(1))), M(('a', I(2))), tag='omap')) == [('a', 1), ('a', 2)]
    assert evaluate(Q(M((Q(S('x')), I(1))), tag='pairs')) == [(['x'], 1)]
    assert evaluate(M((I(1), S('a')), (S('1.0', 'float'), S('b')), (S('true', 'bool'), S('c')))) == {1: 'c'}
