"""O-tokgram / O-evgram: pushdown acceptors written from the grammars documented in the
headers of parser.py (tokens) and emitter.py (events).  Independent of lib/yaml code.

Token kinds: SS SE DIR DS DE BSS BMS BE FSS FSE FMS FME KEY VAL BENT FENT ALIAS ANCHOR TAG SCALAR
Event kinds: SS SE DS DE SEQ_S SEQ_E MAP_S MAP_E SCALAR ALIAS
Verdicts: 'dead' (no continuation is grammatical), 'live' (proper prefix), 'complete'.
"""

F_BLOCK_CONTENT = {'BSS', 'BMS', 'FSS', 'FMS', 'SCALAR'}
F_FLOW_CONTENT = {'FSS', 'FMS', 'SCALAR'}
F_BLOCK_NODE = {'ALIAS', 'TAG', 'ANCHOR'} | F_BLOCK_CONTENT
F_FLOW_NODE = {'ALIAS', 'TAG', 'ANCHOR'} | F_FLOW_CONTENT
F_BNOIS = F_BLOCK_NODE | {'BENT'}
F_FLOW_ENTRY = F_FLOW_NODE | {'KEY'}

TERMINALS = {'SS', 'SE', 'DIR', 'DS', 'DE', 'BSS', 'BMS', 'BE', 'FSS', 'FSE', 'FMS', 'FME', 'KEY', 'VAL', 'BENT',
             'FENT', 'ALIAS', 'ANCHOR', 'TAG', 'SCALAR'}


def _expand(nt, la):
    """LL(1) prediction: the right-hand side chosen for nonterminal nt on look-ahead la, or None = dead."""
    if nt == 'stream':
        return ['SS', 'opt_implicit_doc', 'explicit_docs', 'SE']
    if nt == 'opt_implicit_doc':
        return ['block_node', 'doc_ends'] if la in F_BLOCK_NODE else []
    if nt == 'doc_ends':
        return ['DE', 'doc_ends'] if la == 'DE' else []
    if nt == 'explicit_docs':
        return ['directives', 'DS', 'opt_block_node', 'doc_ends', 'explicit_docs'] if la in ('DIR', 'DS') else []
    if nt == 'directives':
        return ['DIR', 'directives'] if la == 'DIR' else []
    if nt == 'opt_block_node':
        return ['block_node'] if la in F_BLOCK_NODE else []
    if nt == 'block_node':
        if la == 'ALIAS': return ['ALIAS']
        if la in ('TAG', 'ANCHOR'): return ['properties', 'opt_block_content']
        if la in F_BLOCK_CONTENT: return ['block_content']
        return None
    if nt == 'flow_node':
        if la == 'ALIAS': return ['ALIAS']
        if la in ('TAG', 'ANCHOR'): return ['properties', 'opt_flow_content']
        if la in F_FLOW_CONTENT: return ['flow_content']
        return None
    if nt == 'properties':
        if la == 'TAG': return ['TAG', 'opt_anchor']
        if la == 'ANCHOR': return ['ANCHOR', 'opt_tag']
        return None
    if nt == 'opt_anchor':
        return ['ANCHOR'] if la == 'ANCHOR' else []
    if nt == 'opt_tag':
        return ['TAG'] if la == 'TAG' else []
    if nt == 'opt_block_content':
        return ['block_content'] if la in F_BLOCK_CONTENT else []
    if nt == 'opt_flow_content':
        return ['flow_content'] if la in F_FLOW_CONTENT else []
    if nt == 'block_content':
        return {'BSS': ['block_sequence'], 'BMS': ['block_mapping'], 'FSS': ['flow_sequence'],
                'FMS': ['flow_mapping'], 'SCALAR': ['SCALAR']}.get(la)
    if nt == 'flow_content':
        return {'FSS': ['flow_sequence'], 'FMS': ['flow_mapping'], 'SCALAR': ['SCALAR']}.get(la)
    if nt == 'bnois':
        if la == 'ALIAS': return ['ALIAS']
        if la in ('TAG', 'ANCHOR'): return ['properties', 'opt_bc_or_indentless']
        if la in F_BLOCK_CONTENT: return ['block_content']
        if la == 'BENT': return ['indentless']
        return None
    if nt == 'opt_bc_or_indentless':
        if la in F_BLOCK_CONTENT: return ['block_content']
        if la == 'BENT': return ['indentless']
        return []
    if nt == 'opt_bnois':
        return ['bnois'] if la in F_BNOIS else []
    if nt == 'block_sequence':
        return ['BSS', 'bseq_entries', 'BE']
    if nt == 'bseq_entries':
        return ['BENT', 'opt_block_node', 'bseq_entries'] if la == 'BENT' else []
    if nt == 'indentless':
        return ['BENT', 'opt_block_node', 'indentless_rest']
    if nt == 'indentless_rest':
        return ['BENT', 'opt_block_node', 'indentless_rest'] if la == 'BENT' else []
    if nt == 'block_mapping':
        return ['BMS', 'bmap_entries', 'BE']
    if nt == 'bmap_entries':
        if la == 'KEY': return ['KEY', 'opt_bnois', 'opt_bvalue', 'bmap_entries']
        if la == 'VAL': return ['VAL', 'opt_bnois', 'bmap_entries']
        return []
    if nt == 'opt_bvalue':
        return ['VAL', 'opt_bnois'] if la == 'VAL' else []
    if nt == 'flow_sequence':
        return ['FSS', 'fseq_body', 'FSE']
    if nt == 'flow_mapping':
        return ['FMS', 'fmap_body', 'FME']
    if nt in ('fseq_body', 'fmap_body'):
        return ['flow_entry', nt.replace('body', 'more')] if la in F_FLOW_ENTRY else []
    if nt in ('fseq_more', 'fmap_more'):
        return ['FENT', nt.replace('more', 'body')] if la == 'FENT' else []
    if nt == 'flow_entry':
        if la == 'KEY': return ['KEY', 'opt_flow_node', 'opt_fvalue']
        return ['flow_node']
    if nt == 'opt_flow_node':
        return ['flow_node'] if la in F_FLOW_NODE else []
    if nt == 'opt_fvalue':
        return ['VAL', 'opt_flow_node'] if la == 'VAL' else []
    raise KeyError(nt)


class TokenAcceptor:
    def __init__(self):
        self.stack = ['stream']
        self.dead = False

    def feed(self, tok):
        if self.dead:
            return 'dead'
        st = self.stack
        while True:
            if not st:
                self.dead = True
                return 'dead'
            top = st[-1]
            if top in TERMINALS:
                if top == tok:
                    st.pop()
                    return 'complete' if not st else 'live'
                self.dead = True
                return 'dead'
            rhs = _expand(top, tok)
            if rhs is None:
                self.dead = True
                return 'dead'
            st.pop()
            st.extend(reversed(rhs))

    def key(self):
        return ('dead',) if self.dead else tuple(self.stack)


def tokens_verdict(kinds):
    a = TokenAcceptor()
    v = 'live'
    for k in kinds:
        v = a.feed(k)
        if v == 'dead':
            return 'dead'
    return v


class EventAcceptor:
    """stream ::= SS document* SE ; document ::= DS node DE ; node ::= SCALAR | ALIAS | SEQ_S node* SEQ_E | MAP_S (node node)* MAP_E"""

    def __init__(self):
        self.st = ['start']      # frames: start, stream, doc(n nodes), seq, map(parity)
        self.dead = False

    def feed(self, ev):
        if self.dead:
            return 'dead'
        st = self.st
        if not st:
            self.dead = True
            return 'dead'
        top = st[-1]
        ok = True
        if top == 'start':
            if ev == 'SS': st[-1] = 'stream'
            else: ok = False
        elif top == 'stream':
            if ev == 'DS': st.append('doc0')
            elif ev == 'SE':
                st.pop()
                return 'complete'
            else: ok = False
        elif top == 'doc1':
            if ev == 'DE': st.pop()
            else: ok = False
        else:   # a node is expected / permitted
            if ev in ('SCALAR', 'ALIAS'):
                self._node_done()
            elif ev == 'SEQ_S':
                st.append('seq')
            elif ev == 'MAP_S':
                st.append('map0')
            elif ev == 'SEQ_E' and top == 'seq':
                st.pop()
                self._node_done()
            elif ev == 'MAP_E' and top == 'map0':
                st.pop()
                self._node_done()
            else:
                ok = False
        if not ok:
            self.dead = True
            return 'dead'
        return 'live'

    def _node_done(self):
        top = self.st[-1]
        if top == 'doc0': self.st[-1] = 'doc1'
        elif top == 'map0': self.st[-1] = 'map1'
        elif top == 'map1': self.st[-1] = 'map0'

    def key(self):
        return ('dead',) if self.dead else tuple(self.st)


def events_verdict(kinds):
    a = EventAcceptor()
    v = 'live'
    for k in kinds:
        v = a.feed(k)
        if v == 'dead':
            return 'dead'
    return v


TOKEN_KIND = {
    'StreamStartToken': 'SS', 'StreamEndToken': 'SE', 'DirectiveToken': 'DIR', 'DocumentStartToken': 'DS',
    'DocumentEndToken': 'DE', 'BlockSequenceStartToken': 'BSS', 'BlockMappingStartToken': 'BMS', 'BlockEndToken': 'BE',
    'FlowSequenceStartToken': 'FSS', 'FlowSequenceEndToken': 'FSE', 'FlowMappingStartToken': 'FMS',
    'FlowMappingEndToken': 'FME', 'KeyToken': 'KEY', 'ValueToken': 'VAL', 'BlockEntryToken': 'BENT',
    'FlowEntryToken': 'FENT', 'AliasToken': 'ALIAS', 'AnchorToken': 'ANCHOR', 'TagToken': 'TAG', 'ScalarToken': 'SCALAR'}
EVENT_KIND = {
    'StreamStartEvent': 'SS', 'StreamEndEvent': 'SE', 'DocumentStartEvent': 'DS', 'DocumentEndEvent': 'DE',
    'SequenceStartEvent': 'SEQ_S', 'SequenceEndEvent': 'SEQ_E', 'MappingStartEvent': 'MAP_S', 'MappingEndEvent': 'MAP_E',
    'ScalarEvent': 'SCALAR', 'AliasEvent': 'ALIAS'}


def balanced_tokens(kinds):
    """What holds for every input that merely *scans*.  Bracket balance proper is enforced by the parser: an
    unclosed '[' or a stray ']' still scans (and then leaves block collections open), so for scan-only inputs
    we require just: one STREAM-START first, one STREAM-END last, and BLOCK-END never without an open block
    collection.  Inputs that parse are held to the full token grammar (TokenAcceptor)."""
    if not kinds or kinds[0] != 'SS' or kinds[-1] != 'SE' or kinds.count('SS') != 1 or kinds.count('SE') != 1:
        return False
    depth = 0
    for k in kinds:
        if k in ('BSS', 'BMS'):
            depth += 1
        elif k == 'BE':
            depth -= 1
            if depth < 0:
                return False
    return True


def selftest():
    T = tokens_verdict
    assert T(['SS', 'SE']) == 'complete'
    assert T(['SS', 'SCALAR', 'SE']) == 'complete'
    assert T(['SS', 'BMS', 'KEY', 'SCALAR', 'VAL', 'SCALAR', 'BE', 'SE']) == 'complete'
    assert T(['SS', 'BMS', 'KEY', 'SCALAR', 'VAL', 'BENT', 'SCALAR', 'BENT', 'SCALAR', 'BE', 'SE']) == 'complete'
    assert T(['SS', 'BMS', 'KEY', 'VAL', 'BE', 'SE']) == 'complete'
    assert T(['SS', 'DS', 'DE', 'DE', 'DS', 'SCALAR', 'SE']) == 'complete'
    assert T(['SS', 'DIR', 'DIR', 'DS', 'TAG', 'ANCHOR', 'SE']) == 'complete'
    assert T(['SS', 'FSS', 'KEY', 'SCALAR', 'VAL', 'SCALAR', 'FENT', 'KEY', 'SCALAR', 'FSE', 'SE']) == 'complete'
    assert T(['SS', 'FMS', 'SCALAR', 'FENT', 'KEY', 'SCALAR', 'VAL', 'SCALAR', 'FENT', 'FME', 'SE']) == 'complete'
    assert T(['SS', 'BSS', 'BENT', 'BSS', 'BENT', 'SCALAR', 'BE', 'BENT', 'BE', 'SE']) == 'complete'
    assert T(['SS', 'SCALAR', 'SCALAR']) == 'dead'
    assert T(['SS', 'FSS', 'FENT']) == 'dead'
    assert T(['SS', 'FSS', 'VAL']) == 'dead'
    assert T(['SS', 'DIR', 'SCALAR']) == 'dead'
    assert T(['SS', 'SCALAR', 'DIR']) == 'live'       # implicit document followed by an explicit one
    assert T(['SS', 'SCALAR', 'DIR', 'SE']) == 'dead'
    assert T(['SS', 'ANCHOR', 'ANCHOR']) == 'dead'
    assert T(['SS', 'ALIAS', 'SCALAR']) == 'dead'
    assert T(['SS', 'BMS', 'KEY']) == 'live'
    assert T(['SS', 'SE', 'SE']) == 'dead'
    assert T(['SE']) == 'dead'
    E = events_verdict
    assert E(['SS', 'SE']) == 'complete'
    assert E(['SS', 'DS', 'SCALAR', 'DE', 'DS', 'SEQ_S', 'ALIAS', 'MAP_S', 'SCALAR', 'SEQ_S', 'SEQ_E', 'MAP_E', 'SEQ_E', 'DE', 'SE']) == 'complete'
    assert E(['SS', 'DS', 'MAP_S', 'SCALAR', 'MAP_E']) == 'dead'
    assert E(['SS', 'DS', 'DE']) == 'dead'
    assert E(['SS', 'DS', 'SCALAR', 'SCALAR']) == 'dead'
    assert E(['SS', 'DS', 'SEQ_S', 'MAP_E']) == 'dead'
    assert E(['SS', 'SCALAR']) == 'dead'
    assert E(['SS', 'DS', 'SEQ_S']) == 'live'
    assert balanced_tokens(['SS', 'BMS', 'VAL', 'SCALAR', 'BE', 'SE']) and not balanced_tokens(['SS', 'BE', 'SE'])
    assert balanced_tokens(['SS', 'BSS', 'BENT', 'FSS', 'SE'])
