"""O-linecol: (line, column) of a character index, by counting line breaks in the input text.

Breaks: LF, NEL (U+0085), LS (U+2028), PS (U+2029), CR not followed by LF (CR LF is one break, counted at the LF).
A byte order mark has zero width (it does not advance the column)."""
import bisect


class LineCol:
    def __init__(self, text):
        self.text = text
        n = len(text)
        line = col = 0
        self.lines = [0] * (n + 1)
        self.cols = [0] * (n + 1)
        for i, ch in enumerate(text):
            self.lines[i] = line
            self.cols[i] = col
            if ch in '\n\x85\u2028\u2029' or (ch == '\r' and not (i + 1 < n and text[i + 1] == '\n')):
                line += 1
                col = 0
            elif ch != '\ufeff':
                col += 1
        self.lines[n] = line
        self.cols[n] = col

    def at(self, index):
        return self.lines[index], self.cols[index]


def selftest():
    L = LineCol('ab\ncd\r\ne\rf\x85g\u2028h\u2029i')
    assert L.at(0) == (0, 0) and L.at(2) == (0, 2) and L.at(3) == (1, 0)
    assert L.at(5) == (1, 2) and L.at(6) == (1, 3) and L.at(7) == (2, 0)   # between CR and LF still on the old line
    assert L.at(8) == (2, 1) and L.at(9) == (3, 0) and L.at(11) == (4, 0) and L.at(13) == (5, 0) and L.at(15) == (6, 0)
    assert L.at(16) == (6, 1)
    assert LineCol('\ufeffa').at(1) == (0, 0) and LineCol('\ufeffa').at(2) == (0, 1)
