"""O-ref11: YAML 1.1 type repository (yaml.org/type/{null,bool,int,float,timestamp,merge,value}.html) as hand-written
character-class recognisers and value functions.  No regexes, nothing imported from lib/yaml.

classify(text) -> frozenset of acceptable kinds (normally one).  Two-element sets mark the documented points where
the repository and PyYAML's published profile are both defensible:
  D1  'y' 'Y' 'n' 'N'          repository: bool; profile: str
  D3  [-+] '.' digits ...      repository: float; profile: str  (a float starting with '.' takes no sign)
Fixed readings (one answer): D2 the fraction of a float is [0-9_]* (the repository's [0-9.]* would make '1.2.3' a
float and '.' alone a float: acknowledged errata); D4 white space may precede a numeric time zone as well as 'Z'
(the repository's own example '2001-12-14 21:59:43.10 -5' needs it); D5 '!!yaml' is never produced from plain text.

value(text, kind) -> Python value or NO_VALUE (syntax matches, denotes nothing: '0x_', month 13).
"""
import datetime

NO_VALUE = object()
DIG = '0123456789'


def _digits(s, i, allowed):
    j = i
    while j < len(s) and s[j] in allowed:
        j += 1
    return j


def _sign(s):
    return (s[0], s[1:]) if s[:1] in ('-', '+') else ('', s)


def is_null(s):
    return s in ('~', 'null', 'Null', 'NULL', '')


def is_bool(s):
    return s in ('yes', 'Yes', 'YES', 'no', 'No', 'NO', 'true', 'True', 'TRUE', 'false', 'False', 'FALSE',
                 'on', 'On', 'ON', 'off', 'Off', 'OFF')


def is_bool_yn(s):
    return s in ('y', 'Y', 'n', 'N')


def _sexa_tail(s, i):
    """(':' [0-5]? [0-9])+ starting at i; returns index after, or -1"""
    n = 0
    while i < len(s) and s[i] == ':':
        j = i + 1
        if j + 1 < len(s) and s[j] in '012345' and s[j + 1] in DIG:
            i = j + 2
        elif j < len(s) and s[j] in DIG:
            i = j + 1
        else:
            return -1
        n += 1
    return i if n else -1


def int_form(s):
    """returns 'b2','b8','b10','b16','b60' or None"""
    _, r = _sign(s)
    if not r:
        return None
    if r[:2] == '0b':
        return 'b2' if len(r) > 2 and _digits(r, 2, '01_') == len(r) else None
    if r[:2] == '0x':
        return 'b16' if len(r) > 2 and _digits(r, 2, DIG + 'abcdefABCDEF_') == len(r) else None
    if r == '0':
        return 'b10'
    if r[0] == '0':
        return 'b8' if _digits(r, 1, '01234567_') == len(r) else None
    if r[0] in '123456789':
        j = _digits(r, 1, DIG + '_')
        if j == len(r):
            return 'b10'
        if _sexa_tail(r, j) == len(r):
            return 'b60'
    return None


def _exp(r, i):
    """optional [eE][-+][0-9]+ at i; returns index after (i if absent), -1 if malformed"""
    if i < len(r) and r[i] in 'eE':
        if i + 2 < len(r) + 0 and r[i + 1] in '-+' and r[i + 2] in DIG:
            return _digits(r, i + 2, DIG)
        return -1
    return i


def float_form(s):
    """returns ('dec'|'dotdec'|'sexa'|'inf'|'nan', signed_leading_dot: bool) or None"""
    sg, r = _sign(s)
    if r in ('.inf', '.Inf', '.INF'):
        return ('inf', False)
    if r in ('.nan', '.NaN', '.NAN'):
        return ('nan', False) if not sg else None
    if not r:
        return None
    if r[0] in DIG:
        j = _digits(r, 1, DIG + '_')
        if j < len(r) and r[j] == '.':
            k = _digits(r, j + 1, DIG + '_')
            e = _exp(r, k)
            if e == len(r):
                return ('dec', False)
            return None
        t = _sexa_tail(r, j)
        if t != -1 and t < len(r) and r[t] == '.':
            if _digits(r, t + 1, DIG + '_') == len(r):
                return ('sexa', False)
        return None
    if r[0] == '.' and len(r) > 1 and r[1] in DIG:
        k = _digits(r, 2, DIG + '_')
        if _exp(r, k) == len(r):
            return ('dotdec', bool(sg))
    return None


def _ts_parts(s):
    """parse a timestamp; returns dict or None"""
    n = len(s)

    def num(i, lo, hi):
        j = i
        while j < n and j - i < hi and s[j] in DIG:
            j += 1
        return (j, s[i:j]) if j - i >= lo else (-1, '')
    i, year = num(0, 4, 4)
    if i < 0 or i >= n or s[i] != '-':
        return None
    i, month = num(i + 1, 1, 2)
    if i < 0 or i >= n or s[i] != '-':
        return None
    i, day = num(i + 1, 1, 2)
    if i < 0:
        return None
    d = {'year': year, 'month': month, 'day': day, 'hour': None}
    if i == n:
        # the date-only form requires two-digit month and day
        return d if len(month) == 2 and len(day) == 2 else None
    if s[i] in 'Tt':
        i += 1
    elif s[i] in ' \t':
        while i < n and s[i] in ' \t':
            i += 1
    else:
        return None
    i, hour = num(i, 1, 2)
    if i < 0 or i >= n or s[i] != ':':
        return None
    i, minute = num(i + 1, 2, 2)
    if i < 0 or i >= n or s[i] != ':':
        return None
    i, second = num(i + 1, 2, 2)
    if i < 0:
        return None
    d.update(hour=hour, minute=minute, second=second, fraction=None, tz=None)
    if i < n and s[i] == '.':
        j = _digits(s, i + 1, DIG)
        d['fraction'] = s[i + 1:j]
        i = j
    if i == n:
        return d
    while i < n and s[i] in ' \t':
        i += 1
    if i >= n:
        return None
    if s[i] == 'Z':
        d['tz'] = ('Z',)
        return d if i + 1 == n else None
    if s[i] in '-+':
        sg = s[i]
        i, th = num(i + 1, 1, 2)
        if i < 0:
            return None
        tm = None
        if i < n:
            if s[i] != ':':
                return None
            i, tm = num(i + 1, 2, 2)
            if i < 0:
                return None
        d['tz'] = (sg, th, tm)
        return d if i == n else None
    return None


def classify(s):
    if is_null(s):
        return frozenset(['null'])
    if is_bool(s):
        return frozenset(['bool'])
    if is_bool_yn(s):
        return frozenset(['bool', 'str'])
    if s == '<<':
        return frozenset(['merge'])
    if s == '=':
        return frozenset(['value'])
    if int_form(s):
        return frozenset(['int'])
    f = float_form(s)
    if f:
        return frozenset(['float', 'str']) if f[1] else frozenset(['float'])
    if _ts_parts(s):
        return frozenset(['timestamp'])
    return frozenset(['str'])


def value(s, kind):
    if kind == 'str':
        return s
    if kind == 'null':
        return None
    if kind == 'bool':
        return s.lower() in ('yes', 'true', 'on', 'y')
    if kind == 'int':
        form = int_form(s)
        sg, r = _sign(s)
        r = r.replace('_', '')
        m = -1 if sg == '-' else 1
        try:
            if form == 'b2':
                return m * int(r[2:], 2)
            if form == 'b16':
                return m * int(r[2:], 16)
            if form == 'b8':
                return m * int(r, 8)
            if form == 'b10':
                return m * int(r)
            if form == 'b60':
                v = 0
                for part in r.split(':'):
                    v = v * 60 + int(part)
                return m * v
        except ValueError:
            return NO_VALUE
        return NO_VALUE
    if kind == 'float':
        form = float_form(s)[0]
        sg, r = _sign(s)
        r = r.replace('_', '')
        m = -1.0 if sg == '-' else 1.0
        if form == 'inf':
            return m * float('inf')
        if form == 'nan':
            return float('nan')
        try:
            if form == 'sexa':
                v = 0.0
                for part in r.split(':'):
                    v = v * 60 + float(part)
                return m * v
            return m * float(r)
        except ValueError:
            return NO_VALUE
    if kind == 'timestamp':
        d = _ts_parts(s)
        try:
            if d['hour'] is None:
                return datetime.date(int(d['year']), int(d['month']), int(d['day']))
            micro = int((d['fraction'] or '')[:6].ljust(6, '0')) if d['fraction'] else 0
            tz = None
            if d['tz']:
                if d['tz'][0] == 'Z':
                    tz = datetime.timezone.utc
                else:
                    delta = datetime.timedelta(hours=int(d['tz'][1]), minutes=int(d['tz'][2] or 0))
                    tz = datetime.timezone(-delta if d['tz'][0] == '-' else delta)
            return datetime.datetime(int(d['year']), int(d['month']), int(d['day']), int(d['hour']), int(d['minute']),
                                     int(d['second']), micro, tzinfo=tz)
        except (ValueError, OverflowError):
            return NO_VALUE
    if kind in ('merge', 'value'):
        return s
    raise KeyError(kind)


def values_equal(a, b, kind, form=None):
    """type-strict, NaN-aware equality; sexagesimal floats within 2 ulp (summation order is not specified)"""
    if type(a) is not type(b):
        return False
    if isinstance(a, float):
        if a != a or b != b:
            return a != a and b != b
        if a == b:
            return repr(a) == repr(b)       # distinguishes -0.0
        return form == 'sexa' and abs(a - b) <= 4e-16 * max(abs(a), abs(b))
    if isinstance(a, datetime.datetime):
        return a == b and a.utcoffset() == b.utcoffset() if (a.tzinfo is None) == (b.tzinfo is None) else False
    return a == b


def selftest():
    C = lambda s: sorted(classify(s))
    # examples from the type repository pages
    for s in ('~', 'null', 'Null', 'NULL', ''):
        assert C(s) == ['null'], s
    for s in ('yes', 'No', 'TRUE', 'false', 'On', 'OFF'):
        assert C(s) == ['bool'], s
    assert C('y') == ['bool', 'str'] and C('nO') == ['str'] and C('tRue') == ['str']
    for s, v in (('685230', 685230), ('+685_230', 685230), ('02472256', 685230), ('0x_0A_74_AE', 685230),
                 ('0b1010_0111_0100_1010_1110', 685230), ('190:20:30', 685230), ('-0', 0), ('0', 0), ('-1:00', -60)):
        assert C(s) == ['int'] and value(s, 'int') == v, s
    for s in ('0x', '0b', '08', '1:60', '1:2:', ':1', '1__:', '0o7', '+', '-', '1e3', '01:00', '0:30'):
        assert C(s) != ['int'], s
    assert value('0x_', 'int') is NO_VALUE and value('0b_', 'int') is NO_VALUE and C('0x_') == ['int']
    for s, v in (('6.8523015e+5', 685230.15), ('685.230_15e+03', 685230.15), ('685_230.15', 685230.15), ('190:20:30.15', 685230.15),
                 ('1.', 1.0), ('.5', 0.5), ('1.e+1', 10.0), ('-1.5', -1.5)):
        assert C(s) == ['float'] and abs(value(s, 'float') - v) < 1e-6, s
    assert value('-.inf', 'float') == float('-inf') and value('.NaN', 'float') != value('.NaN', 'float')
    for s in ('1.2.3', '.', '-.', '1e5', '1.0e5', '1.5e', '._5', '.e+1', '+.nan', '.Nan', '.iNf', '1:2:3.4.5'):
        assert 'float' not in classify(s), s
    assert C('-.5') == ['float', 'str'] and C('+.5e+1') == ['float', 'str']
    D = datetime
    for s, v in (('2001-12-14t21:59:43.10-05:00', D.datetime(2001, 12, 14, 21, 59, 43, 100000, tzinfo=D.timezone(D.timedelta(hours=-5)))),
                 ('2001-12-14 21:59:43.10 -5', D.datetime(2001, 12, 14, 21, 59, 43, 100000, tzinfo=D.timezone(D.timedelta(hours=-5)))),
                 ('2001-12-15 2:59:43.10', D.datetime(2001, 12, 15, 2, 59, 43, 100000)),
                 ('2001-12-15T02:59:43.1Z', D.datetime(2001, 12, 15, 2, 59, 43, 100000, tzinfo=D.timezone.utc)),
                 ('2002-12-14', D.date(2002, 12, 14))):
        assert C(s) == ['timestamp'] and values_equal(value(s, 'timestamp'), v, 'timestamp'), s
    for s in ('2002-1-1', '2001-12-14 21:59', '2001-12-14T21:59:43x', '201-12-14', '2001-12-14 21:59:43 +', '2001-12-14T'):
        assert C(s) == ['str'], s
    assert C('2001-1-1 1:00:00') == ['timestamp'] and value('2001-13-45 1:00:00', 'timestamp') is NO_VALUE
    assert value('2001-02-30', 'timestamp') is NO_VALUE and value('2001-01-01 00:00:00 +24:00', 'timestamp') is NO_VALUE
    assert C('<<') == ['merge'] and C('=') == ['value'] and C('!') == ['str'] and C('<') == ['str']
