"""O-equiv: "same meaning" on event descriptor streams (see vf/events.py for the descriptor forms).

equiv(orig, parsed) -> None if equivalent, else a short reason.  Compared: the sequence of event kinds (structure),
anchors and alias names, scalar text character for character, %YAML version and %TAG map of every document, and tags --
where a tag may be absent on the parsed side only if the original event licensed its elision:

  scalar   parsed.tag None, parsed plain      <=  orig.implicit[0]
           parsed.tag None, parsed non-plain  <=  orig.implicit[1]
           parsed.tag '!'                     <=  orig.implicit[0]   (the non-specific tag '!' on a non-plain scalar means
                                                  exactly "resolve as if plain" - the parser reports implicit=(True, False)
                                                  for it - which is what the original event's implicit[0] licensed;
                                                  libyaml writes "! 'yes'" for Scalar('yes', tag=T, implicit=(True, False), style="'"))
  collection parsed.tag None                  <=  orig.implicit

Not compared (they are requests / presentation, not content): scalar style, flow style, explicit document markers.
With check_flags=True the explicit flags of DS/DE are compared as well (used by C12/C15 where they are the subject).
"""


def equiv(orig, parsed, check_flags=False):
    if len(orig) != len(parsed):
        return 'event count %d != %d (kinds %s vs %s)' % (len(orig), len(parsed), [e[0] for e in orig][:12], [e[0] for e in parsed][:12])
    for i, (a, b) in enumerate(zip(orig, parsed)):
        if a[0] != b[0]:
            return 'event %d kind %s != %s' % (i, a[0], b[0])
        k = a[0]
        if k == 'DS':
            if (a[2] or None) != (b[2] or None):
                return 'event %d %%YAML version %r != %r' % (i, a[2], b[2])
            ta = tuple(sorted(a[3])) if a[3] else None
            tb = tuple(sorted(b[3])) if b[3] else None
            if ta != tb:
                return 'event %d %%TAG directives %r != %r' % (i, ta, tb)
            if check_flags and bool(a[1]) != bool(b[1]):
                return 'event %d document start explicit %r != %r' % (i, a[1], b[1])
        elif k == 'DE':
            if check_flags and bool(a[1]) != bool(b[1]):
                return 'event %d document end explicit %r != %r' % (i, a[1], b[1])
        elif k in ('SEQ_S', 'MAP_S'):
            if a[1] != b[1]:
                return 'event %d anchor %r != %r' % (i, a[1], b[1])
            if a[2] != b[2]:
                if not (b[2] is None and a[3]):
                    return 'event %d collection tag %r != %r (implicit=%r)' % (i, a[2], b[2], a[3])
        elif k == 'SCALAR':
            if a[1] != b[1]:
                return 'event %d anchor %r != %r' % (i, a[1], b[1])
            if a[4] != b[4]:
                return 'event %d scalar value %r != %r' % (i, a[4], b[4])
            if a[2] != b[2]:
                plain = not b[5]
                ok = False
                if b[2] is None:
                    ok = a[3][0] if plain else a[3][1]
                elif b[2] == '!':
                    ok = a[3][0]
                if not ok:
                    return 'event %d scalar tag %r != %r (orig implicit=%r, parsed style=%r)' % (i, a[2], b[2], a[3], b[5])
        elif k == 'ALIAS':
            if a[1] != b[1]:
                return 'event %d alias %r != %r' % (i, a[1], b[1])
    return None


def selftest():
    S = lambda tag, imp, val='x', style=None, anchor=None: ('SCALAR', anchor, tag, imp, val, style)
    w = lambda s: [('SS',), ('DS', False, None, None), s, ('DE', False), ('SE',)]
    assert equiv(w(S(None, (True, False))), w(S(None, (True, False)))) is None
    assert equiv(w(S('t', (True, False))), w(S(None, (True, False)))) is None          # elided, plain
    assert equiv(w(S('t', (False, True))), w(S(None, (True, False)))) is not None      # plain but only quoted-implicit
    assert equiv(w(S('t', (False, True))), w(S(None, (False, True), style='"'))) is None
    assert equiv(w(S(None, (True, False))), w(S('!', (True, False), style='"'))) is None
    assert equiv(w(S('t', (True, False))), w(S('!', (True, False), style='"'))) is None
    assert equiv(w(S('t', (False, True))), w(S('!', (True, False), style='"'))) is not None
    assert equiv(w(S('t', (False, False))), w(S('u', (False, False)))) is not None
    assert equiv(w(S(None, (True, False), 'x')), w(S(None, (True, False), 'y'))) is not None
    assert equiv(w(S(None, (True, False), anchor='a')), w(S(None, (True, False)))) is not None
    assert equiv([('SS',), ('SE',)], [('SS',), ('DS', True, None, None), S(None, (True, False), ''), ('DE', False), ('SE',)]) is not None
    d1 = [('SS',), ('DS', True, (1, 1), (('!e!', 'p'),)), S(None, (True, False)), ('DE', False), ('SE',)]
    d2 = [('SS',), ('DS', True, None, (('!e!', 'p'),)), S(None, (True, False)), ('DE', False), ('SE',)]
    assert equiv(d1, d1) is None and equiv(d1, d2) is not None
    assert equiv([('SS',), ('DS', False, None, None), ('SEQ_S', None, 't', True, False), ('SEQ_E',), ('DE', False), ('SE',)],
                 [('SS',), ('DS', True, None, None), ('SEQ_S', None, None, True, True), ('SEQ_E',), ('DE', True), ('SE',)]) is None
    assert equiv([('SS',), ('DS', False, None, None), ('SEQ_S', None, 't', False, False), ('SEQ_E',), ('DE', False), ('SE',)],
                 [('SS',), ('DS', True, None, None), ('SEQ_S', None, None, True, True), ('SEQ_E',), ('DE', True), ('SE',)]) is not None
