"""O-canon: an independent recursive-descent parser for *canonical-form* YAML (what `canonical=True` is documented to
produce): directives, '---', optional '...', every collection in flow syntax with mandatory separators, every mapping
entry as '? key : value', every scalar double-quoted, tags as '!<uri>' / '!!x' / '!h!x' / '!x' / '!', anchors and
aliases.  Written from the YAML 1.1 production rules; shares no code with lib/yaml (nor with tests/canonical.py).

parse(text) -> list of event descriptors (vf/events.py forms).  Raises CanonError when the text is not canonical."""

BREAKS = '\n\r\x85\u2028\u2029'
ESC = {'0': '\0', 'a': '\x07', 'b': '\x08', 't': '\t', '\t': '\t', 'n': '\n', 'v': '\x0b', 'f': '\x0c', 'r': '\r', 'e': '\x1b',
       ' ': ' ', '"': '"', '/': '/', '\\': '\\', 'N': '\x85', '_': '\xa0', 'L': '\u2028', 'P': '\u2029'}
HEXLEN = {'x': 2, 'u': 4, 'U': 8}


class CanonError(Exception):
    pass


class _P:
    def __init__(self, text):
        self.t = text
        self.i = 0
        self.n = len(text)
        self.ev = []
        self.handles = {}

    def err(self, msg):
        raise CanonError('%s at index %d (%r)' % (msg, self.i, self.t[self.i:self.i + 20]))

    def peek(self, k=0):
        j = self.i + k
        return self.t[j] if j < self.n else ''

    def at_line_start(self):
        return self.i == 0 or self.t[self.i - 1] in BREAKS

    def ws(self, comments=True):
        """skip spaces, breaks and (optionally) comments"""
        while self.i < self.n:
            c = self.t[self.i]
            if c == ' ' or c in BREAKS:
                self.i += 1
            elif c == '#' and comments and (self.i == 0 or self.t[self.i - 1] in ' ' + BREAKS):
                while self.i < self.n and self.t[self.i] not in BREAKS:
                    self.i += 1
            else:
                break

    def starts(self, s):
        return self.t.startswith(s, self.i)

    # ---- stream / documents
    def stream(self):
        self.ev.append(('SS',))
        if self.peek() == '\ufeff':
            self.i += 1
        self.ws()
        while self.i < self.n:
            self.document()
            self.ws()
        self.ev.append(('SE',))
        return self.ev

    def document(self):
        version = None
        tags = []
        self.handles = {'!': '!', '!!': 'tag:yaml.org,2002:'}
        while self.peek() == '%':
            if not self.at_line_start():
                self.err('directive not at line start')
            line = self.line()
            parts = line.split()
            if parts[0] == '%YAML' and len(parts) == 2:
                if version is not None:
                    self.err('duplicate %YAML')
                a, _, b = parts[1].partition('.')
                if not (a.isdigit() and b.isdigit()):
                    self.err('bad %YAML version')
                version = (int(a), int(b))
            elif parts[0] == '%TAG' and len(parts) == 3:
                h, p = parts[1], self.uri_decode(parts[2])
                if not (h.startswith('!') and h.endswith('!')) or h in [x for x, _ in tags]:
                    self.err('bad or duplicate %TAG handle')
                tags.append((h, p))
                self.handles[h] = p
            else:
                self.err('unknown directive')
            self.ws()
        if not (self.starts('---') and self.at_line_start()):
            self.err("canonical document must start with '---' at the beginning of a line")
        self.i += 3
        if self.peek() and self.peek() not in ' ' + BREAKS:
            self.err("'---' must be followed by white space")
        self.ev.append(('DS', True, version, tuple(sorted(tags)) if tags else None))
        self.ws()
        self.node()
        self.ws()
        explicit = False
        if self.starts('...') and self.at_line_start():
            self.i += 3
            explicit = True
            if self.peek() and self.peek() not in ' ' + BREAKS:
                self.err("'...' must be followed by white space")
        elif self.i < self.n and not ((self.starts('---') or self.peek() == '%') and self.at_line_start()):
            self.err('garbage after document root')
        self.ev.append(('DE', explicit))

    def line(self):
        j = self.i
        while j < self.n and self.t[j] not in BREAKS:
            j += 1
        s = self.t[self.i:j]
        self.i = j
        return s

    # ---- nodes
    def node(self):
        c = self.peek()
        if c == '*':
            self.i += 1
            self.ev.append(('ALIAS', self.name()))
            return
        anchor = tag = None
        has_tag = False
        while True:
            c = self.peek()
            if c == '&' and anchor is None:
                self.i += 1
                anchor = self.name()
                self.sep()
            elif c == '!' and not has_tag:
                tag = self.tag()
                has_tag = True
                self.sep()
            else:
                break
        c = self.peek()
        if c == '"':
            v = self.dq()
            imp = (False, False) if tag is not None and tag != '!' else ((True, False) if tag == '!' else (False, True))
            self.ev.append(('SCALAR', anchor, tag, imp, v, '"'))
        elif c == '[':
            self.i += 1
            self.ev.append(('SEQ_S', anchor, tag, tag is None, True))
            self.ws()
            while self.peek() != ']':
                self.node()
                self.ws()
                if self.peek() == ',':
                    self.i += 1
                    self.ws()
                elif self.peek() != ']':
                    self.err("expected ',' or ']'")
            self.i += 1
            self.ev.append(('SEQ_E',))
        elif c == '{':
            self.i += 1
            self.ev.append(('MAP_S', anchor, tag, tag is None, True))
            self.ws()
            while self.peek() != '}':
                if self.peek() != '?':
                    self.err("canonical mapping entry must start with '?'")
                self.i += 1
                self.sep()
                self.node()
                self.ws()
                if self.peek() != ':':
                    self.err("expected ':'")
                self.i += 1
                self.sep()
                self.node()
                self.ws()
                if self.peek() == ',':
                    self.i += 1
                    self.ws()
                elif self.peek() != '}':
                    self.err("expected ',' or '}'")
            self.i += 1
            self.ev.append(('MAP_E',))
        else:
            self.err('expected a double-quoted scalar, a flow collection or an alias')

    def sep(self):
        if self.peek() not in (' ',) + tuple(BREAKS):
            self.err('expected white space')
        self.ws()

    def name(self):
        j = self.i
        while j < self.n and (self.t[j].isascii() and (self.t[j].isalnum() or self.t[j] in '-_')):
            j += 1
        if j == self.i:
            self.err('empty anchor / alias name')
        s = self.t[self.i:j]
        self.i = j
        return s

    def uri_decode(self, s):
        out = bytearray()
        k = 0
        while k < len(s):
            if s[k] == '%':
                try:
                    out.append(int(s[k + 1:k + 3], 16))
                except ValueError:
                    self.err('bad %-escape in URI')
                if len(s[k + 1:k + 3]) != 2:
                    self.err('bad %-escape in URI')
                k += 3
            else:
                if ord(s[k]) > 0x7e or ord(s[k]) <= 0x20:
                    self.err('raw non-ASCII / space character in a tag URI')
                out += s[k].encode('ascii')
                k += 1
        try:
            return out.decode('utf-8')
        except UnicodeDecodeError:
            self.err('URI escapes are not UTF-8')

    def tag(self):
        assert self.peek() == '!'
        j = self.i
        if self.peek(1) == '<':
            k = self.t.find('>', j)
            if k < 0:
                self.err('unterminated verbatim tag')
            self.i = k + 1
            return self.uri_decode(self.t[j + 2:k])
        while j < self.n and self.t[j] not in ' ' + BREAKS:
            j += 1
        raw = self.t[self.i:j]
        self.i = j
        if raw == '!':
            return '!'
        k = raw.find('!', 1)
        if k > 0:
            handle, suffix = raw[:k + 1], raw[k + 1:]
        else:
            handle, suffix = '!', raw[1:]
        if handle not in self.handles:
            self.err('undefined tag handle %r' % handle)
        if not suffix:
            self.err('empty tag suffix')
        return self.handles[handle] + self.uri_decode(suffix)

    def dq(self):
        assert self.peek() == '"'
        self.i += 1
        out = []
        while True:
            if self.i >= self.n:
                self.err('unterminated double-quoted scalar')
            c = self.t[self.i]
            if c == '"':
                self.i += 1
                return ''.join(out)
            if c == '\\':
                e = self.peek(1)
                if e in HEXLEN:
                    h = self.t[self.i + 2:self.i + 2 + HEXLEN[e]]
                    if len(h) != HEXLEN[e]:
                        self.err('short hex escape')
                    try:
                        out.append(chr(int(h, 16)))
                    except (ValueError, OverflowError):
                        self.err('bad hex escape')
                    self.i += 2 + HEXLEN[e]
                elif e != '' and e in BREAKS:
                    # escaped line break: the break and the following line's leading white space vanish
                    self.i += 2
                    if e == '\r' and self.peek() == '\n':
                        self.i += 1
                    while self.peek() in (' ', '\t') and self.peek() != '':
                        self.i += 1
                elif e in ESC:
                    out.append(ESC[e])
                    self.i += 2
                else:
                    self.err('unknown escape')
            elif c in BREAKS:
                # unescaped break: line folding (trailing blanks trimmed, one break -> space, k breaks -> k-1 '\n')
                while out and out[-1] in ' \t':
                    out.pop()
                nb = 0
                while self.peek() != '' and self.peek() in BREAKS + ' \t':
                    if self.peek() in BREAKS:
                        if self.peek() == '\r' and self.peek(1) == '\n':
                            self.i += 1
                        nb += 1
                    self.i += 1
                out.append(' ' if nb == 1 else '\n' * (nb - 1))
            else:
                out.append(c)
                self.i += 1


def parse(text):
    return _P(text).stream()


def selftest():
    ev = parse('%YAML 1.1\n%TAG !e! tag:e.com,2000:\n---\n!!map {\n  ? !!str "k"\n  : &id001 !!seq [\n    !!int "1",\n    !e!x "a\\x41\\\n      \\ b",\n    *id001,\n  ],\n}\n...\n--- "x"\n')
    assert ev == [('SS',), ('DS', True, (1, 1), (('!e!', 'tag:e.com,2000:'),)), ('MAP_S', None, 'tag:yaml.org,2002:map', False, True),
                  ('SCALAR', None, 'tag:yaml.org,2002:str', (False, False), 'k', '"'), ('SEQ_S', 'id001', 'tag:yaml.org,2002:seq', False, True),
                  ('SCALAR', None, 'tag:yaml.org,2002:int', (False, False), '1', '"'), ('SCALAR', None, 'tag:e.com,2000:x', (False, False), 'aA b', '"'),
                  ('ALIAS', 'id001'), ('SEQ_E',), ('MAP_E',), ('DE', True), ('DS', True, None, None),
                  ('SCALAR', None, None, (False, True), 'x', '"'), ('DE', False), ('SE',)], ev
    assert parse('--- !<tag:%C3%A9.com,2000:x> "\\N\\_\\L\\P\\e\\0\\U0001F600"\n')[2][2:5] == ('tag:\xe9.com,2000:x', (False, False), '\x85\xa0\u2028\u2029\x1b\0\U0001F600')
    assert parse('--- ! "a"\n')[2][2] == '!'
    for bad in ['a', '--- a', "--- 'a'", '--- [a]', '--- {"a": "b"}', '--- !!str', '---\n- "a"', '"a"', '--- "a" "b"', '--- !u!x "a"', '--- "\\q"', '--- ["a" "b"]',
                '--- |\n  a', '---"a"', '--- "a"\n--- "b" x']:
        try:
            parse(bad)
        except CanonError:
            continue
        raise AssertionError('accepted non-canonical text %r' % bad)
    assert parse('') == [('SS',), ('SE',)]
