"""O-graph: type-strict graph bisimulation through a canonical form.

canon(x) walks the graph depth-first in a deterministic order, numbers every container / object on first visit and
writes ('ref', n) on a revisit, so two graphs have equal canonical forms iff they are bisimilar *and* have the same
sharing partition (which paths reach the same object), cycles included.  NaN equals NaN, -0.0 differs from 0.0,
bool/int/float are distinguished, dict key order is significant iff ordered=True."""
import datetime, math

ATOMS = (type(None), bool, int, float, str, bytes, complex)


def _atom(x):
    t = type(x)
    if t is float:
        if x != x:
            return ('float', 'nan')
        return ('float', repr(x))
    if t is complex:
        return ('complex', _atom(x.real), _atom(x.imag))
    return (t.__name__, x)


def _keyform(k):
    t = type(k)
    if t in ATOMS:
        return _atom(k)
    if t is tuple or t is frozenset:
        return (t.__name__,) + tuple(sorted((_keyform(i) for i in k), key=repr) if t is frozenset else [_keyform(i) for i in k])
    return (t.__name__, repr(k))


def canon(x, ordered=True, obj_hook=None, identity_free=None):
    ids = {}
    keep = []

    def walk(o):
        t = type(o)
        if t in ATOMS:
            return _atom(o)
        if t is datetime.date or t is datetime.datetime or t is datetime.time or t is datetime.timedelta:
            return (t.__name__, repr(o), str(o.utcoffset()) if t is datetime.datetime else None)
        oid = id(o)
        if oid in ids:
            return ('ref', ids[oid])
        if identity_free is not None and identity_free(o):
            # compared by content only (used to express a known finding precisely, never by a deciding check)
            keep.append(o)
            return obj_hook(o, walk, -1)
        if t is tuple:
            # tuples are immutable: identity is not observable through construction order, compare by content
            return ('tuple',) + tuple(walk(i) for i in o)
        n = ids[oid] = len(ids)
        keep.append(o)
        if t is list:
            return ('list', n, tuple(walk(i) for i in o))
        if t is dict:
            pairs = list(o.items())
            if not ordered:
                # order by the key's own canonical form (keys are hashable: atoms, dates, tuples of those -> no ids
                # inside), *then* walk the values, so that numbering does not depend on insertion order
                pairs.sort(key=lambda kv: repr(_keyform(kv[0])))
            return ('dict', n, tuple((walk(k), walk(v)) for k, v in pairs))
        if t is set or t is frozenset:
            return (t.__name__, n, tuple(sorted((walk(i) for i in o), key=repr)))
        if obj_hook is not None:
            r = obj_hook(o, walk, n)
            if r is not None:
                return r
        return ('object', t.__module__ + '.' + t.__qualname__, n, repr(o))

    return walk(x)


def same(a, b, ordered=True, obj_hook=None):
    return canon(a, ordered, obj_hook) == canon(b, ordered, obj_hook)


def selftest():
    a = [1, 2]
    assert same([a, a], [a, a]) and not same([a, a], [[1, 2], [1, 2]])
    r = []; r.append(r)
    r2 = []; r2.append(r2)
    assert same(r, r2) and not same(r, [[]])
    assert same(float('nan'), float('nan')) and not same(0.0, -0.0) and not same(1, 1.0) and not same(1, True)
    assert same({'a': 1, 'b': 2}, {'b': 2, 'a': 1}, ordered=False) and not same({'a': 1, 'b': 2}, {'b': 2, 'a': 1}, ordered=True)
    assert same({1, 2, 3}, {3, 2, 1}) and not same({1}, [1])
    s1 = [1]
    assert same({'b': s1, 'a': [s1, [2]]}, {'a': [s1, [2]], 'b': s1}, ordered=False)
    assert not same({'b': s1, 'a': [s1, [2]]}, {'a': [[1], [2]], 'b': s1}, ordered=False)
    d = {}; d['k'] = d
    d2 = {}; d2['k'] = d2
    assert same(d, d2) and not same(d, {'k': {}})
    assert not same('a', b'a') and same(datetime.date(2001, 1, 1), datetime.date(2001, 1, 1))
    assert not same(datetime.datetime(2001, 1, 1), datetime.datetime(2001, 1, 1, tzinfo=datetime.timezone.utc))
