"""Instrumented streams: the harness owns every answer of read()/write()/flush()."""


class ChunkStream:
    """read(size) hands out pieces according to `sizes` (a cycle of piece sizes, or a callable)."""

    def __init__(self, data, sizes=(1,), name=None):
        self.data = data
        self.pos = 0
        self.sizes = sizes
        self.calls = []          # (requested, returned_len, pos_after)
        self.closed_reads = 0
        if name is not None:
            self.name = name

    def read(self, size=-1):
        i = len(self.calls)
        want = self.sizes(i, size) if callable(self.sizes) else self.sizes[i % len(self.sizes)]
        if size is not None and size >= 0:
            want = min(want, size)
        want = max(1, want)
        piece = self.data[self.pos:self.pos + want]
        self.pos += len(piece)
        self.calls.append((size, len(piece), self.pos))
        return piece


class ScheduleStream:
    """E2 choice-point stream: answer k-th read() with schedule[k] units (None/absent = default: all asked)."""

    def __init__(self, data, schedule=()):
        self.data = data
        self.pos = 0
        self.schedule = schedule
        self.points = []         # (requested, remaining_before) at each call -> alternatives for the explorer

    def read(self, size=-1):
        k = len(self.points)
        remaining = len(self.data) - self.pos
        self.points.append((size, remaining))
        full = remaining if size is None or size < 0 else min(size, remaining)
        want = full
        if k < len(self.schedule) and self.schedule[k] is not None:
            want = self.schedule[k]
            if want > full or (want < 1 and full > 0):
                raise AssertionError('divergence while replaying schedule: choice %r at point %d, max %d' % (want, k, full))
        piece = self.data[self.pos:self.pos + want]
        self.pos += len(piece)
        return piece
