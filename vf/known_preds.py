"""Input predicates for known_findings.json entries (each takes (case, detail))."""
import yaml as _yaml


def _token_kinds(text, Loader=None):
    from .oracles.grammar import TOKEN_KIND
    out = []
    try:
        for t in _yaml.scan(text, Loader=Loader or _yaml.CLoader):
            out.append(TOKEN_KIND[type(t).__name__])
    except _yaml.YAMLError:
        pass
    return out


def flowseq_empty_key_text(text):
    """the text has, inside a flow *sequence*, a '?' KEY token immediately followed by ':', ',' or ']'
    (libyaml's parse_flow_sequence_entry_mapping_key then skips that following token)"""
    if not isinstance(text, str):
        return False
    ks = _token_kinds(text)
    stack = []
    for i, k in enumerate(ks):
        if k in ('FSS', 'FMS'):
            stack.append(k)
        elif k in ('FSE', 'FME'):
            if stack:
                stack.pop()
        elif k == 'KEY' and stack and stack[-1] == 'FSS' and i + 1 < len(ks) and ks[i + 1] in ('VAL', 'FENT', 'FSE'):
            return True
    return False


def c09_flowseq_empty_key(case, detail):
    return detail.startswith('c ') and flowseq_empty_key_text(case.get('input'))

import re as _re


def c06_block_header_comment(case, detail):
    """'|#' / '>#': a comment glued to a block scalar header. Python scanner rejects, libyaml accepts."""
    t = case.get('input')
    return (isinstance(t, str) and _re.search(r'[|>][-+0-9]*#', t) is not None
            and "expected chomping or indentation indicators, but found '#'" in detail and 'c=accepts' in detail)


def _glued_question_in_flow(text):
    """inside a flow collection (bracket depth > 0), a '?' glued to a neighbour: directly after a character that
    can be part of a plain scalar, or directly followed by something that is not white space"""
    depth = 0
    for i, ch in enumerate(text):
        if ch in '[{':
            depth += 1
        elif ch in ']}':
            depth = max(0, depth - 1)
        elif ch == '?' and depth > 0:
            prev = text[i - 1] if i else ' '
            nxt = text[i + 1:i + 2]
            if prev not in ' \n\r,[{' or nxt not in (' ', '\n', '\r', ''):
                return True
    return False


def c06_flow_question(case, detail):
    """'?' glued to other characters inside a flow collection: libyaml 0.2.5 never ends a plain scalar at '?', and
    skips the token after an empty flow-sequence key; the Python scanner ends plain scalars at '?' in flow context."""
    t = case.get('input')
    if not (isinstance(t, str) and '?' in t and ('[' in t or '{' in t)):
        return False
    return _glued_question_in_flow(t) or flowseq_empty_key_text(t)


def c06_flow_colon_glued(case, detail):
    """'{a:}' / '[a:]': ':' directly followed by a flow indicator after a plain scalar. libyaml: "found unexpected ':'"; Python accepts."""
    t = case.get('input')
    return (isinstance(t, str) and _re.search(r':[\]\}\[\{,]', t) is not None and "found unexpected ':'" in detail
            and 'py=accepts' in detail)


def c02_c_fold_more_indented(case, detail):
    """LibYAML emitter, folded style requested, some line of the string starts with a space and contains a later
    space followed by a non-space character (a fold point inside a more-indented line)"""
    s = case.get('string')
    if case.get('dumper') != 'c' or (case.get('options') or {}).get('default_style') != '>' or not isinstance(s, str):
        return False
    for line in _re.split('[\n\x85\u2028\u2029]', s):
        if _re.search(r'^ .* [^ ]', line):     # starts with a space; a later space is followed by a non-space
            return True
    return False


def _evs(case):
    from . import events as _E
    try:
        return _E.fix(case.get('events') or [])
    except Exception:
        return []


def _fold_flaw_text(s):
    for line in _re.split('[\n\x85\u2028\u2029]', s):
        if _re.search(r'^ .* [^ ]', line):
            return True
    return False


def c05_c_fold_more_indented(case, detail):
    """LibYAML emitter, a scalar event requesting folded style whose text has a line that starts with a space and has a
    later space followed by a non-space character (libyaml folds there; the fold is read back as a line break)"""
    if case.get('emitter') != 'c':
        return False
    return any(e[0] == 'SCALAR' and e[5] == '>' and isinstance(e[4], str) and _fold_flaw_text(e[4]) for e in _evs(case))


def c_empty_implicit_first_document(case, detail):
    """LibYAML emitter, first document start implicit without directives, root an unanchored empty scalar that is written
    plain with its tag elided: libyaml writes nothing at all for that document (yaml_emitter_check_empty_document is a stub)"""
    if case.get('emitter') != 'c' or (case.get('options') or {}).get('canonical'):
        return False
    ev = _evs(case)
    if len(ev) < 3 or ev[1][0] != 'DS' or ev[1][1] or ev[1][2] or ev[1][3]:
        return False
    r = ev[2]
    return r[0] == 'SCALAR' and r[1] is None and r[4] == '' and not r[5] and bool(r[3][0])


def c12_c_empty_implicit_first_document(case, detail):
    """C12 form of the libyaml empty-implicit-first-document flaw: LibYAML dumper, not canonical, the first document is
    implicit without directives and its root is an unanchored empty plain scalar whose tag is elided"""
    o = case.get('options') or {}
    if case.get('dumper') != 'c' or o.get('canonical'):
        return False
    docs = case.get('docs') or []
    if not docs:
        return False
    first = docs[0]
    if case.get('level') == 'events':
        first = tuple(first)
        return first[0] == 0 and first[1] in (0, 2) and first[2] == 0
    if case.get('level') == 'nodes':
        return first == 0 and not (o.get('explicit_start') or o.get('version') or o.get('tags'))
    return False


def c17_falsy_state(case, detail):
    """the graph contains an object whose __getstate__ returns a falsy non-None value (0): PyYAML writes `state: 0` but on
    load skips set_python_instance_state for a falsy state, pickle calls __setstate__(0); everything else agrees with pickle"""
    from .props import c17
    return c17.known_relaxed(case, 'falsy-state')


def c17_scalar_subclass_sharing(case, detail):
    """the graph references one instance of an int/str/float/bytes subclass (not an enum) from two places:
    Representer.ignore_aliases treats it as a scalar, writes it twice, and the loader builds two objects; everything
    else agrees with pickle"""
    from .props import c17
    return c17.known_relaxed(case, 'shared-scalar-subclass')


def c01_tag_on_structurally_consumed_node(case, detail):
    """the tagged node is never constructed as a value: it is the mapping (or list) given directly to a merge key, an item of
    a merge list, or the single-pair mapping entry of an !!omap / !!pairs sequence; flatten_mapping / construct_yaml_omap /
    construct_yaml_pairs read its children without looking at its tag, so a non-core tag there is ignored, not rejected"""
    ctx, kind = case.get('context'), case.get('kind')
    mapping_kinds = ('map-empty', 'map-ab', 'long', 'state-dunder', 'value-key-scalar', 'value-key-seq', 'value-key-map')
    one_pair_kinds = ('map-ab', 'value-key-scalar', 'value-key-seq', 'value-key-map')
    if ctx == 'merge':
        return kind == 'seq-empty' or kind in mapping_kinds
    if ctx == 'merge-list':
        return kind in mapping_kinds
    if ctx in ('omap-entry', 'pairs-entry'):
        return kind in one_pair_kinds
    return False


def c17_cycle_inside_deep_state(case, detail):
    """a self-referential plain structure (cycle through an instance dict / list / dict only) that sits inside the
    arguments, state, listitems or dictitems of an object PyYAML builds in one step (python/object/new, python/object/apply,
    or python/object with __setstate__): the state is constructed eagerly ("deep"), so the inner back-reference meets a
    node that is still under construction"""
    spec = case.get('spec') or []
    if len(spec) != 3 or spec[0] != 'cycle' or spec[1] != 4:
        return False
    from .props import c17
    name = c17.shapes()[spec[2]][0]
    return name not in ('Plain', 'SetItemDict', 'tuple', 'list', 'dict') and 'unconstructable recursive node' in detail


def c17_nested_qualname(case, detail):
    """the graph contains an instance of a class defined inside another class, such a class itself, or a function defined in
    a class body: Representer writes module + __name__ ('vf_shapes.Inner'), which does not resolve; the loader reports
    "cannot find 'Inner' in the module" (ConstructorError).  pickle protocol 2 reaches it through getattr on the outer class."""
    from .props import c17
    if 'cannot find' not in detail or 'in the module' not in detail:
        return False
    return 'nested-qualname' in c17.features(c17.build(tuple(case['spec'])))


def c06_comma_in_tag_shorthand(case, detail):
    """',' inside a shorthand tag ('!a,b', '!!s,', '!e!x,'): YAML 1.1 ns-uri-char allows it and the Python scanner takes it into
    the tag; libyaml 0.2.5 follows YAML 1.2 (flow indicators end a shorthand tag)."""
    t = case.get('input')
    return isinstance(t, str) and _re.search(r'(^|[\s\[{,])!(?!<)[^\s<>]*,', t) is not None
