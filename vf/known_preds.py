"""Input predicates for known_findings.json entries (each takes (case, detail))."""
