"""Input predicates for known_findings.json entries (each takes (case, detail))."""
import yaml as _yaml


def _token_kinds(text, Loader=None):
    from .oracles.grammar import TOKEN_KIND
    out = []
    try:
        for t in _yaml.scan(text, Loader=Loader or _yaml.CLoader):
            out.append(TOKEN_KIND[type(t).__name__])
    except _yaml.YAMLError:
        pass
    return out


def flowseq_empty_key_text(text):
    """the text has, inside a flow *sequence*, a '?' KEY token immediately followed by ':', ',' or ']'
    (libyaml's parse_flow_sequence_entry_mapping_key then skips that following token)"""
    if not isinstance(text, str):
        return False
    ks = _token_kinds(text)
    stack = []
    for i, k in enumerate(ks):
        if k in ('FSS', 'FMS'):
            stack.append(k)
        elif k in ('FSE', 'FME'):
            if stack:
                stack.pop()
        elif k == 'KEY' and stack and stack[-1] == 'FSS' and i + 1 < len(ks) and ks[i + 1] in ('VAL', 'FENT', 'FSE'):
            return True
    return False


def c09_flowseq_empty_key(case, detail):
    return detail.startswith('c ') and flowseq_empty_key_text(case.get('input'))

import re as _re


def c06_block_header_comment(case, detail):
    """'|#' / '>#': a comment glued to a block scalar header. Python scanner rejects, libyaml accepts."""
    t = case.get('input')
    return (isinstance(t, str) and _re.search(r'[|>][-+0-9]*#', t) is not None
            and "expected chomping or indentation indicators, but found '#'" in detail and 'c=accepts' in detail)


def c06_flow_question(case, detail):
    """'?' glued to other characters inside a flow collection: libyaml 0.2.5 always makes it a KEY indicator when it
    starts a token, never ends a plain scalar at it, and skips the token after an empty flow-sequence key."""
    t = case.get('input')
    if not (isinstance(t, str) and '?' in t and ('[' in t or '{' in t)):
        return False
    if "but got '?'" in detail and 'c=accepts' in detail:
        return True
    return flowseq_empty_key_text(t)


def c06_flow_colon_glued(case, detail):
    """'{a:}' / '[a:]': ':' directly followed by a flow indicator after a plain scalar. libyaml: "found unexpected ':'"; Python accepts."""
    t = case.get('input')
    return (isinstance(t, str) and _re.search(r':[\]\}\[\{,]', t) is not None and "found unexpected ':'" in detail
            and 'py=accepts' in detail)
