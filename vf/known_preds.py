"""Input predicates for known_findings.json entries (each takes (case, detail))."""
import yaml as _yaml


def _token_kinds(text, Loader=None):
    from .oracles.grammar import TOKEN_KIND
    out = []
    try:
        for t in _yaml.scan(text, Loader=Loader or _yaml.CLoader):
            out.append(TOKEN_KIND[type(t).__name__])
    except _yaml.YAMLError:
        pass
    return out


def flowseq_empty_key_text(text):
    """the text has, inside a flow *sequence*, a '?' KEY token immediately followed by ':', ',' or ']'
    (libyaml's parse_flow_sequence_entry_mapping_key then skips that following token)"""
    if not isinstance(text, str):
        return False
    ks = _token_kinds(text)
    stack = []
    for i, k in enumerate(ks):
        if k in ('FSS', 'FMS'):
            stack.append(k)
        elif k in ('FSE', 'FME'):
            if stack:
                stack.pop()
        elif k == 'KEY' and stack and stack[-1] == 'FSS' and i + 1 < len(ks) and ks[i + 1] in ('VAL', 'FENT', 'FSE'):
            return True
    return False


def c09_flowseq_empty_key(case, detail):
    return detail.startswith('c ') and flowseq_empty_key_text(case.get('input'))
