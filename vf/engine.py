"""Supervisor / worker engine shared by every check.

A check module (vf/props/cNN.py) provides

    ID, LEVEL, RULE, ASSUMPTIONS
    selftest()                      oracle self-tests (raise => exit 2, never a VIOLATION)
    plan(tier, seed) -> [job, ...]  deterministic list of picklable job descriptors
    run_job(job, T)                 enumerate the job's sub-space, call T.* to account
    replay(case) -> [violation]     re-execute exactly one recorded case
    finalize(agg, tier, seed)       optional: extra coverage keys / cross-job checks

Jobs are distributed over long-lived worker processes; results are aggregated
by job index (never by arrival order).  A job that exceeds its wall limit or
kills its worker is re-run alone with case tracing to name the offending case.
"""
import os, sys, time, json, hashlib, traceback, signal, tempfile, subprocess
import multiprocessing as mp
from multiprocessing.connection import wait as mpwait
from collections import Counter

NWORKERS = int(os.environ.get('VERIF_WORKERS', '0')) or min(16, os.cpu_count() or 4)
JOB_LIMIT_S = float(os.environ.get('VERIF_JOB_LIMIT', '600'))
CASE_LIMIT_S = float(os.environ.get('VERIF_CASE_LIMIT', '20'))
MAX_STORED_PER_SIG = 3
MAX_STORED = 60
MAX_SUSPECTS = 4


def jsonable(x, depth=0):
    """Lossless-enough JSON rendering of a case for replay files and samples."""
    if depth > 12:
        return repr(x)
    if x is None or isinstance(x, (bool, int)):
        return x
    if isinstance(x, float):
        return x if x == x and abs(x) != float('inf') else {'__float__': repr(x)}
    if isinstance(x, str):
        try:
            x.encode('utf-8')
            return x
        except UnicodeEncodeError:
            return {'__str_escaped__': x.encode('unicode_escape').decode('ascii')}
    if isinstance(x, bytes):
        return {'__bytes__': x.hex()}
    if isinstance(x, (list, tuple)):
        return {'__tuple__': [jsonable(i, depth + 1) for i in x]} if isinstance(x, tuple) else [jsonable(i, depth + 1) for i in x]
    if isinstance(x, dict):
        if all(isinstance(k, str) for k in x):
            return {k: jsonable(v, depth + 1) for k, v in x.items()}
        return {'__dict_items__': [[jsonable(k, depth + 1), jsonable(v, depth + 1)] for k, v in x.items()]}
    if isinstance(x, (set, frozenset)):
        return {'__set__': sorted((jsonable(i, depth + 1) for i in x), key=repr)}
    return {'__repr__': repr(x)}


def unjson(x):
    if isinstance(x, list):
        return [unjson(i) for i in x]
    if isinstance(x, dict):
        if '__bytes__' in x and len(x) == 1:
            return bytes.fromhex(x['__bytes__'])
        if '__tuple__' in x and len(x) == 1:
            return tuple(unjson(i) for i in x['__tuple__'])
        if '__float__' in x and len(x) == 1:
            return float(x['__float__'])
        if '__str_escaped__' in x and len(x) == 1:
            return x['__str_escaped__'].encode('ascii').decode('unicode_escape')
        if '__dict_items__' in x and len(x) == 1:
            return {_hashable(unjson(k)): unjson(v) for k, v in x['__dict_items__']}
        if '__set__' in x and len(x) == 1:
            return set(_hashable(unjson(i)) for i in x['__set__'])
        if '__repr__' in x and len(x) == 1:
            return x['__repr__']
        return {k: unjson(v) for k, v in x.items()}
    return x


def _hashable(x):
    return tuple(x) if isinstance(x, list) else x


class Tally:
    """Per-job accounting object handed to run_job."""

    def __init__(self, trace_path=None, pid=None):
        self.pid = pid
        self.evaluations = 0
        self.nontrivial = 0
        self.counters = Counter()
        self.samples = {}            # subspace -> [first, middle-ish, last]
        self._nsample = Counter()
        self.violations = []         # stored (capped)
        self.violation_total = 0
        self._sig_count = Counter()
        self.outcomes = set()        # digests of distinct observed outcomes (capped)
        self.states = 0
        self.transitions = 0
        self.extra = {}
        self.trace = trace_path is not None
        self._trace_path = trace_path
        self._trace_fd = None

    # -- tracing (only in the isolating re-run) ---------------------------
    def begin(self, case):
        if not self.trace:
            return
        if self._trace_fd is None:
            self._trace_fd = os.open(self._trace_path, os.O_WRONLY | os.O_CREAT | os.O_TRUNC)
        data = json.dumps({'t': time.time(), 'case': jsonable(case)}).encode()
        os.lseek(self._trace_fd, 0, 0)
        os.ftruncate(self._trace_fd, 0)
        os.write(self._trace_fd, data)

    # -- accounting ---------------------------------------------------------
    def ev(self, n=1, nontrivial=0):
        self.evaluations += n
        self.nontrivial += nontrivial

    def count(self, key, n=1):
        self.counters[key] += n

    def sample(self, sub, case):
        """Keep first, a middle one and the last case of a sub-space."""
        n = self._nsample[sub]
        self._nsample[sub] = n + 1
        s = self.samples.setdefault(sub, [None, None, None])
        if n == 0:
            s[0] = case
        elif n & (n - 1) == 0:       # powers of two: ends up somewhere in the middle
            s[1] = case
        s[2] = case

    def outcome(self, o):
        if len(self.outcomes) < 20000:
            self.outcomes.add(hashlib.blake2b(repr(o).encode('utf-8', 'backslashreplace'), digest_size=8).hexdigest())

    def violation(self, sub, kind, case, detail='', expected=None, observed=None):
        """Record a violation.  `case` must be what replay(case) needs."""
        if self.pid:
            from . import known
            kid = known.match(self.pid, sub, kind, case, detail)
            if kid:
                self.counters['known:' + kid] += 1
                return
        self.violation_total += 1
        sig = (sub, kind)
        self._sig_count[sig] += 1
        if self._sig_count[sig] <= MAX_STORED_PER_SIG and len(self.violations) < MAX_STORED:
            self.violations.append({
                'sub': sub, 'kind': kind, 'case': jsonable(case), 'detail': str(detail)[:2000],
                'expected': jsonable(expected) if expected is not None else None,
                'observed': jsonable(observed) if observed is not None else None,
            })

    def export(self):
        return {
            'evaluations': self.evaluations, 'nontrivial': self.nontrivial,
            'counters': dict(self.counters),
            'samples': {k: [jsonable(c) for c in v if c is not None] for k, v in self.samples.items()},
            'violations': self.violations, 'violation_total': self.violation_total,
            'sig_count': {'%s|%s' % k: v for k, v in self._sig_count.items()},
            'outcomes': sorted(self.outcomes), 'states': self.states, 'transitions': self.transitions,
            'extra': self.extra,
        }


def _assert_tree():
    import yaml
    repo = os.path.realpath(os.environ.get('VERIF_REPO', '/repo'))
    f = os.path.realpath(yaml.__file__)
    if not f.startswith(repo + '/lib/'):
        raise SystemExit('harness error: yaml imported from %s, expected under %s/lib' % (f, repo))


WORKER_MEM_GB = float(os.environ.get('VERIF_WORKER_MEM_GB', '3'))


def _limit_memory():
    """a runaway allocation in the code under test must end in MemoryError inside the worker (reported as a violation by
    the check that sees it), not in the machine running out of memory"""
    try:
        import resource
        lim = int(WORKER_MEM_GB * (1 << 30))
        resource.setrlimit(resource.RLIMIT_AS, (lim, lim))
    except Exception:
        pass


def _worker_main(modname, conn):
    signal.signal(signal.SIGINT, signal.SIG_IGN)
    try:
        os.setpgid(0, 0)      # own process group: whatever the tree under test manages to start is killed with the worker
    except OSError:
        pass
    _limit_memory()
    try:
        _assert_tree()
        mod = __import__(modname, fromlist=['x'])
        if hasattr(mod, 'worker_init'):
            mod.worker_init()
    except BaseException:
        conn.send(('fatal', -1, traceback.format_exc()))
        return
    while True:
        try:
            msg = conn.recv()
        except EOFError:
            return
        if msg is None:
            return
        idx, job = msg
        T = Tally(pid=mod.ID)
        try:
            mod.run_job(job, T)
            conn.send(('ok', idx, T.export()))
        except BaseException:
            # The checks are silent on the tree they were built against, so an exception escaping from a job means the tree
            # under test made the harness meet something it has never seen (a result of an unexpected shape, an exception
            # from a place that never raises).  That is reported as a violation with the traceback, not as a harness error:
            # a behaviour change must never be able to hide behind "the check crashed".
            tb = traceback.format_exc()
            T.violation('harness', 'check-crashed:' + tb.strip().splitlines()[-1].split(':')[0][:40], {'job': repr(job)[:300], 'job_pickle': __import__('pickle').dumps(job).hex()}, detail=tb[-1500:])
            T.ev(1)
            try:
                conn.send(('ok', idx, T.export()))
            except BaseException:
                conn.send(('error', idx, tb))


class Aggregate:
    def __init__(self):
        self.evaluations = 0
        self.nontrivial = 0
        self.counters = Counter()
        self.samples = {}
        self.violations = []
        self.violation_total = 0
        self.sig_count = Counter()
        self.outcomes = set()
        self.states = 0
        self.transitions = 0
        self.extras = []
        self.jobs = 0
        self.slowest = []
        self.harness_errors = []

    def add(self, idx, r):
        self.jobs += 1
        self.evaluations += r['evaluations']
        self.nontrivial += r['nontrivial']
        self.counters.update(r['counters'])
        for k, v in r['samples'].items():
            s = self.samples.setdefault(k, [])
            if not s:
                s.extend(v)
            else:
                # keep first of first job, last of last job, one from the middle
                if len(s) >= 3:
                    s[1:] = [s[1], v[-1]]
                else:
                    s.extend(v[-1:])
        self.violations.extend(r['violations'])
        self.violation_total += r['violation_total']
        self.sig_count.update(r['sig_count'])
        self.outcomes.update(r['outcomes'])
        self.states += r['states']
        self.transitions += r['transitions']
        if r['extra']:
            self.extras.append((idx, r['extra']))


def run_jobs(modname, jobs, log=print):
    """Run all jobs; returns Aggregate.  Results are folded in job-index order."""
    ctx = mp.get_context('fork')
    results = [None] * len(jobs)
    pending = list(range(len(jobs)))[::-1]
    workers = {}       # conn -> [proc, idx, t0]
    suspects = []      # (idx, 'hang'|'crash')
    skipped = []
    agg = Aggregate()

    groups = []

    def spawn():
        a, b = ctx.Pipe()
        p = ctx.Process(target=_worker_main, args=(modname, b), daemon=True)
        p.start()
        groups.append(p.pid)
        b.close()
        workers[a] = [p, None, None]
        return a

    def feed(c):
        if pending:
            i = pending.pop()
            workers[c][1] = i
            workers[c][2] = time.time()
            c.send((i, jobs[i]))
        else:
            workers[c][1] = None
            try:
                c.send(None)
            except Exception:
                pass

    n = min(NWORKERS, max(1, len(jobs)))
    for _ in range(n):
        feed(spawn())
    done = 0
    last_log = time.time()
    while done + len(suspects) + len(skipped) < len(jobs):
        busy = [c for c, w in workers.items() if w[1] is not None]
        if not busy:
            break
        ready = mpwait(busy, timeout=1.0)
        now = time.time()
        for c in ready:
            w = workers[c]
            try:
                kind, idx, payload = c.recv()
            except (EOFError, ConnectionResetError):
                # worker died
                idx = w[1]
                w[0].join(1)
                suspects.append((idx, 'crash(exitcode=%s)' % w[0].exitcode))
                del workers[c]
                if pending:
                    feed(spawn())
                continue
            if kind == 'fatal':
                raise HarnessError('worker start-up failed:\n' + payload)
            if kind == 'error':
                raise HarnessError('job %r raised in harness code:\n%s' % (jobs[idx], payload))
            payload['_wall'] = now - w[2]
            results[idx] = payload
            done += 1
            feed(c)
        for c in list(workers):
            w = workers[c]
            if w[1] is not None and now - w[2] > JOB_LIMIT_S:
                suspects.append((w[1], 'timeout(%ss)' % JOB_LIMIT_S))
                w[0].kill()
                w[0].join(1)
                del workers[c]
                if len(suspects) >= MAX_SUSPECTS and pending:
                    # the tree under test hangs or crashes all over the place: a few isolated cases are enough to report it
                    log('  %d jobs hung or crashed: not starting the remaining %d jobs' % (len(suspects), len(pending)))
                    skipped.extend(pending)
                    del pending[:]
                if pending:
                    feed(spawn())
        if now - last_log > 30:
            last_log = now
            log('  .. %d/%d jobs' % (done, len(jobs)))
    for c, w in workers.items():
        try:
            c.send(None)
        except Exception:
            pass
    for c, w in workers.items():
        w[0].join(2)
        if w[0].is_alive():
            w[0].kill()
    _kill_groups(groups)
    for i, r in enumerate(results):
        if r is not None:
            agg.add(i, r)
    slow = sorted(((r['_wall'], i) for i, r in enumerate(results) if r is not None), reverse=True)[:5]
    agg.slowest = [{'job': repr(jobs[i])[:120], 'wall_s': round(w, 2)} for w, i in slow]
    for idx, why in suspects:
        r = isolate(modname, jobs[idx], why, log)
        agg.add(idx, r)
    return agg


def _kill_groups(pids):
    """processes started from inside a worker by the tree under test (a loader that calls what a document names) would
    otherwise outlive the check and keep its output pipe open"""
    for pid in pids:
        try:
            os.killpg(pid, signal.SIGKILL)
        except (OSError, ProcessLookupError):
            pass


class HarnessError(Exception):
    pass


def isolate(modname, job, why, log=print):
    """Re-run one job alone with case tracing; name the case that hangs / crashes."""
    log('  job %r: %s -- re-running alone with tracing' % (job, why))
    fd, trace = tempfile.mkstemp(prefix='vf-trace-')
    os.close(fd)
    fd, out = tempfile.mkstemp(prefix='vf-out-')
    os.close(fd)
    code = ('import sys, json, pickle\n'
            'from vf import engine\n'
            'engine._assert_tree()\n'
            'engine._limit_memory()\n'
            'mod = __import__(%r, fromlist=["x"])\n'
            'getattr(mod, "worker_init", lambda: None)()\n'
            'T = engine.Tally(trace_path=%r, pid=mod.ID)\n'
            'mod.run_job(pickle.loads(bytes.fromhex(%r)), T)\n'
            'json.dump(T.export(), open(%r, "w"))\n') % (modname, trace, __import__('pickle').dumps(job).hex(), out)
    p = subprocess.Popen([sys.executable, '-X', 'faulthandler', '-c', code], stderr=subprocess.PIPE, start_new_session=True)
    t0 = time.time()
    last = None
    last_t = time.time()
    verdict = None
    while True:
        rc = p.poll()
        if rc is not None:
            break
        time.sleep(0.25)
        try:
            cur = open(trace).read()
        except OSError:
            cur = None
        if cur != last:
            last, last_t = cur, time.time()
        elif cur and time.time() - last_t > CASE_LIMIT_S:
            verdict = 'hang'
            p.kill()
            p.wait()
            break
        if time.time() - t0 > JOB_LIMIT_S * 4:
            verdict = 'job-timeout'
            p.kill()
            p.wait()
            break
    err = p.stderr.read().decode('utf-8', 'replace')[-3000:]
    T = Tally()
    try:
        if verdict is None and p.returncode == 0:
            r = json.load(open(out))
            log('  job completed when run alone (%s was load-related); using its result' % why)
            return r
        case = None
        try:
            case = unjson(json.loads(last)['case']) if last else None
        except Exception:
            pass
        if verdict is None:
            verdict = 'crash(rc=%s)' % p.returncode
        if verdict == 'job-timeout' or case is None:
            raise HarnessError('job %r: %s and no single case could be named; stderr:\n%s' % (job, verdict, err))
        T.violation('watchdog', verdict.split('(')[0], case, detail='%s; stderr tail: %s' % (verdict, err[-600:]))
        T.ev(1)
        return T.export()
    finally:
        _kill_groups([p.pid])
        for f in (trace, out):
            try:
                os.unlink(f)
            except OSError:
                pass
