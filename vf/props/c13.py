"""C13 - aliases mean identity; anchor rules (E1 over document skeletons, oracle computed from the skeleton)."""
import itertools
import yaml

ID = 'C13'
LEVEL = 'exploration'
RULE = ('every document skeleton with <=N nodes over {scalar, seq, map, !!set, !!omap, !!pairs} (+ !!python/tuple and '
        '!!python/object for Full/Unsafe loaders) in flow syntax x every assignment of <=2 anchors named from {a,b} (so '
        'duplicates occur) to non-alias nodes x every naming of the alias leaves from {a,b,u(ndefined)} - aliases thus point '
        'backwards, into an enclosing node (recursion), forwards and to nothing; two-document streams for cross-document '
        'aliases; each loaded by Safe/Full/Unsafe x Python/LibYAML and composed by both. Expected outcome is computed from '
        'the skeleton alone: ComposerError for undefined/forward/cross-document alias and duplicate anchor (first in document '
        'order), ConstructorError for a list/dict/set in mapping-key or set-member position (incl. a container as its own key) '
        'and for a tuple that is its own item (directly or through tuples), otherwise for every two container places p,q: obj(p) is obj(q) iff both denote the '
        'same skeleton node. non-trivial = skeleton has at least one alias or anchor')
ASSUMPTIONS = ['scalars are unique strings so mapping entries can be located by key; identity of immutable scalars is not examined',
               'per-case hang limit: the engine watchdog (a looping loader is reported as a hang violation)']

LOADERS = [('Safe', 'py', yaml.SafeLoader), ('Safe', 'c', yaml.CSafeLoader), ('Full', 'py', yaml.FullLoader), ('Full', 'c', yaml.CFullLoader),
           ('Unsafe', 'py', yaml.UnsafeLoader), ('Unsafe', 'c', yaml.CUnsafeLoader)]
SAFE_KINDS = ('Q', 'M', 'SET', 'OMAP', 'PAIRS')
CONTAINER_TYPES = (list, dict, set)


def bounds(tier, seed):
    q = tier == 'quick'
    return {'max_nodes': 4 if q else 5, 'max_anchors': 2, 'anchor_names': ['a', 'b'], 'alias_names': ['a', 'b', 'u'], 'max_aliases': 3,
            'quick_seed_slice': '5-node skeletons with index % 16 == seed % 16' if q else None}


# ---------------------------------------------------------------- skeletons
# a skeleton is a nested tuple: ('S',) | ('A',) | (kind, child, child, ...) ; for M/OMAP/PAIRS children come in (key, value) pairs
def skeletons(n, kinds):
    """all skeleton trees with exactly n nodes"""
    if n == 1:
        yield ('S',)
        yield ('A',)
        for k in kinds:
            yield (k,)
        return
    for k in kinds:
        paired = k in ('M', 'OMAP', 'PAIRS', 'OBJ')
        for kids in forests(n - 1, kinds):
            if paired and len(kids) % 2:
                continue
            if len(kids) > 4:
                continue
            yield (k,) + kids


def forests(n, kinds):
    """all ordered tuples of trees with n nodes in total (n >= 1)"""
    for first in range(1, n + 1):
        for t in skeletons(first, kinds):
            if first == n:
                yield (t,)
            else:
                for rest in forests(n - first, kinds):
                    yield (t,) + rest


def preorder(sk, path=()):
    yield path, sk
    for i, c in enumerate(sk[1:]):
        yield from preorder(c, path + (i,))


def decorate(sk):
    """every assignment of anchors (<=2, names a/b) to non-alias nodes and names to alias leaves (<=3 aliases)"""
    nodes = list(preorder(sk))
    alias_paths = [p for p, s in nodes if s[0] == 'A']
    anchorable = [p for p, s in nodes if s[0] != 'A']
    if len(alias_paths) > 3:
        return
    for na in range(0, 3):
        for who in itertools.combinations(anchorable, na):
            for names in itertools.product('ab', repeat=na):
                anchors = dict(zip(who, names))
                for al in itertools.product('abu', repeat=len(alias_paths)):
                    yield anchors, dict(zip(alias_paths, al))


PREFIX = {'Q': '', 'M': '', 'SET': '!!set ', 'OMAP': '!!omap ', 'PAIRS': '!!pairs ', 'TUP': '!!python/tuple ', 'OBJ': '!!python/object:vf_shapes.Plain '}


def render(sk, anchors, aliases, path=(), counter=None):
    """flow-syntax text; scalars are s0, s1, ... in document order"""
    if counter is None:
        counter = [0]
    k = sk[0]
    if k == 'A':
        return '*' + aliases[path]
    head = ('&%s ' % anchors[path]) if path in anchors else ''
    if k == 'S':
        s = 's%d' % counter[0]
        counter[0] += 1
        return head + s
    kids = [render(c, anchors, aliases, path + (i,), counter) for i, c in enumerate(sk[1:])]
    head += PREFIX[k]
    if k in ('Q', 'TUP'):
        return head + '[' + ', '.join(kids) + ']'
    if k == 'SET':
        return head + '{' + ', '.join('? ' + c for c in kids) + '}'
    pairs = ['? %s : %s' % (kids[i], kids[i + 1]) for i in range(0, len(kids), 2)]
    if k in ('M', 'OBJ'):
        return head + '{' + ', '.join(pairs) + '}'
    return head + '[' + ', '.join('{' + p + '}' for p in pairs) + ']'


# ---------------------------------------------------------------- the oracle (skeleton only)
def predict(docs, level):
    """docs: list of (sk, anchors, aliases).  Returns ('ComposerError', why) | ('ConstructorError', why) | ('ok', targets)
    where targets = per document {alias path -> path of the node it denotes}"""
    all_targets = []
    for sk, anchors, aliases in docs:
        defined = {}
        targets = {}
        for path, s in preorder(sk):
            if s[0] == 'A':
                nm = aliases[path]
                if nm not in defined:
                    return ('ComposerError', 'undefined alias %s at %r' % (nm, path))
                targets[path] = defined[nm]
            elif path in anchors:
                nm = anchors[path]
                if nm in defined:
                    return ('ComposerError', 'duplicate anchor %s at %r' % (nm, path))
                defined[nm] = path
        all_targets.append(targets)
    if level == 'compose':
        return ('ok', all_targets)
    for (sk, anchors, aliases), targets in zip(docs, all_targets):
        by_path = dict(preorder(sk))

        def kind_at(path):
            return by_path[targets[path]][0] if by_path[path][0] == 'A' else by_path[path][0]

        def denotes(path):
            return targets.get(path, path)

        def hashable(path, seen=()):
            p = denotes(path)
            k = by_path[p][0]
            if k == 'S':
                return True
            if k == 'TUP':
                if p in seen:
                    return True
                return all(hashable(p + (i,), seen + (p,)) for i in range(len(by_path[p]) - 1))
            if k == 'OBJ':
                return True
            return False
        for path, s in preorder(sk):
            k = s[0]
            if k in ('M', 'OBJ'):
                for i in range(0, len(s) - 1, 2):
                    if not hashable(path + (i,)):
                        return ('ConstructorError', 'unhashable key at %r' % (path + (i,),))
            elif k == 'SET':
                for i in range(len(s) - 1):
                    if not hashable(path + (i,)):
                        return ('ConstructorError', 'unhashable set member at %r' % (path + (i,),))
            elif k == 'TUP':
                # a tuple is built in one step from its finished items, so an alias denoting it that is an item of it
                # (directly or through nested tuples) is unconstructable; through a list / dict / set / instance it is fine
                # because those are created first and filled afterwards
                def direct(p, sx):
                    for i, c in enumerate(sx[1:]):
                        if c[0] == 'A' and targets[p + (i,)] == path:
                            return True
                        if c[0] == 'TUP' and direct(p + (i,), c):
                            return True
                    return False
                if direct(path, s):
                    return ('ConstructorError', 'tuple containing itself at %r' % (path,))
            elif k == 'OBJ':
                pass
    return ('ok', all_targets)


def walk_result(T, sub, case, sk, targets, obj, getkind):
    """walk skeleton and loaded object in parallel; returns {denoted skeleton path: [objects found at the places]} or None"""
    places = {}
    ok = [True]

    def bad(msg):
        ok[0] = False
        T.violation(sub, 'structure-differs', case, detail=msg)

    counter = [0]
    text_of = {}
    for p_, s_ in preorder(sk):
        if s_[0] == 'S':
            text_of[p_] = 's%d' % len(text_of)

    def key_text(path, s):
        """text of a scalar key (directly or through an alias), else None"""
        p = targets[path] if s[0] == 'A' else path
        return text_of.get(p)

    def rec(path, s, o):
        if not ok[0]:
            return
        if s[0] == 'A':
            places.setdefault(targets[path], []).append(o)
            return
        places.setdefault(path, []).append(o)
        k = s[0]
        if k == 'S':
            want = 's%d' % counter[0]
            counter[0] += 1
            if o != want:
                bad('scalar at %r is %r, expected %r' % (path, o, want))
            return
        kids = s[1:]
        if k in ('Q', 'TUP'):
            if type(o) is not (list if k == 'Q' else tuple) or len(o) != len(kids):
                return bad('%s at %r is %r' % (k, path, _short(o)))
            for i, c in enumerate(kids):
                rec(path + (i,), c, o[i])
        elif k in ('OMAP', 'PAIRS'):
            if type(o) is not list or len(o) != len(kids) // 2 or any(type(e) is not tuple or len(e) != 2 for e in o):
                return bad('%s at %r is %r' % (k, path, _short(o)))
            for i in range(0, len(kids), 2):
                rec(path + (i,), kids[i], o[i // 2][0])
                rec(path + (i + 1,), kids[i + 1], o[i // 2][1])
        elif k in ('M', 'OBJ', 'SET'):
            if k == 'OBJ':
                if type(o).__name__ != 'Plain':
                    return bad('OBJ at %r is %r' % (path, _short(o)))
                d = o.__dict__
            else:
                d = o
                if type(o) is not (dict if k == 'M' else set):
                    return bad('%s at %r is %r' % (k, path, _short(o)))
            step = 1 if k == 'SET' else 2
            ktexts = [key_text(path + (i,), kids[i]) for i in range(0, len(kids), step)]
            distinct = len(set(ktexts)) if None not in ktexts else len(ktexts)
            if len(d) != distinct:
                return bad('%s at %r has %d entries, expected %d: %r' % (k, path, len(d), distinct, _short(o)))
            keys = list(d) if k != 'SET' else None
            for j, i in enumerate(range(0, len(kids), step)):
                if kids[i][0] == 'S':
                    counter[0] += 1
                if k == 'SET':
                    # members are scalars here (anything else was predicted as an error) or a lone tuple / instance
                    if ktexts[j] is not None and ktexts[j] not in d:
                        return bad('set at %r lacks %r: %r' % (path, ktexts[j], _short(o)))
                elif None in ktexts:
                    # a tuple / instance key: single-pair mappings only (see run_job), positional
                    counter[0] -= 1 if kids[i][0] == 'S' else 0
                    rec(path + (i,), kids[i], keys[j])
                    rec(path + (i + 1,), kids[i + 1], d[keys[j]])
                else:
                    if ktexts[j] not in d:
                        return bad('%s at %r lacks key %r: %r' % (k, path, ktexts[j], _short(o)))
                    last = max(jj for jj, t in enumerate(ktexts) if t == ktexts[j])
                    if last == j:
                        rec(path + (i + 1,), kids[i + 1], d[ktexts[j]])
                    else:
                        skip_scalars(kids[i + 1])
    def skip_scalars(s):
        counter[0] += sum(1 for _, x in preorder(s) if x[0] == 'S')
    rec((), sk, obj)
    return places if ok[0] else None


def check_identity(T, sub, case, places, by_path, what):
    """same skeleton node <=> same object, for mutable containers / instances"""
    reps = []
    for p, objs in places.items():
        k = by_path[p][0]
        if k in ('S', 'TUP'):
            continue
        first = objs[0]
        for o in objs[1:]:
            if o is not first:
                T.violation(sub, 'alias-is-a-copy', case, detail='%s: the node at %r and an alias to it are different objects (%r)' % (what, p, _short(first)))
                return
        reps.append((p, first))
    for (p, a), (q, b) in itertools.combinations(reps, 2):
        if a is b:
            T.violation(sub, 'distinct-nodes-share-an-object', case, detail='%s: nodes at %r and %r are the same object %r' % (what, p, q, _short(a)))
            return


def _short(x, n=160):
    try:
        x = repr(x)
    except RecursionError:
        x = '<recursive>'
    return x if len(x) <= n else x[:n // 2] + ' ... ' + x[-n // 2:]


def node_places(sk, targets, node):
    places = {}

    def rec(path, s, nd):
        if s[0] == 'A':
            places.setdefault(targets[path], []).append(nd)
            return
        places.setdefault(path, []).append(nd)
        kids = s[1:]
        if s[0] == 'S' or not kids:
            return
        if isinstance(nd, yaml.SequenceNode) and s[0] in ('Q', 'TUP'):
            for i, c in enumerate(kids):
                rec(path + (i,), c, nd.value[i])
        elif isinstance(nd, yaml.SequenceNode):      # omap / pairs: sequence of one-pair mappings
            for i in range(0, len(kids), 2):
                k, v = nd.value[i // 2].value[0]
                rec(path + (i,), kids[i], k)
                rec(path + (i + 1,), kids[i + 1], v)
        elif s[0] == 'SET':
            for i, c in enumerate(kids):
                rec(path + (i,), c, nd.value[i][0])
        else:
            for i in range(0, len(kids), 2):
                k, v = nd.value[i // 2]
                rec(path + (i,), kids[i], k)
                rec(path + (i + 1,), kids[i + 1], v)
    rec((), sk, node)
    return places


def check_docs(T, sub, docs, families):
    """docs = list of (sk, anchors, aliases) forming one stream"""
    text = ''.join('--- ' + render(sk, an, al) + '\n' for sk, an, al in docs)
    case = {'doc': text, 'skeleton': [[sk, sorted((list(p), n) for p, n in an.items()), sorted((list(p), n) for p, n in al.items())] for sk, an, al in docs], 'families': list(families)}
    if T.trace: T.begin(case)
    nontriv = any(an or al for _, an, al in docs)
    # compose level
    exp = predict(docs, 'compose')
    for be, L in (('py', yaml.SafeLoader), ('c', yaml.CSafeLoader)):
        T.evaluations += 1
        try:
            nodes = list(yaml.compose_all(text, Loader=L))
            got = ('ok', nodes)
        except yaml.YAMLError as e:
            got = (type(e).__name__, str(e).replace('\n', ' ')[:120])
        except Exception as e:
            got = ('!' + type(e).__name__, str(e)[:120])
        if got[0] != exp[0]:
            T.violation(sub, 'compose-outcome', case, detail='compose/%s: expected %s (%s), got %s %s' % (be, exp[0], exp[1] if exp[0] != 'ok' else '', got[0], got[1] if got[0] != 'ok' else ''))
        elif got[0] == 'ok':
            for (sk, an, al), targets, nd in zip(docs, exp[1], nodes):
                places = node_places(sk, targets, nd)
                for p, objs in places.items():
                    if any(o is not objs[0] for o in objs[1:]):
                        T.violation(sub, 'compose-alias-is-a-copy', case, detail='compose/%s: node at %r and its alias are different node objects' % (be, p))
                reps = [(p, o[0]) for p, o in places.items()]
                for (p, a), (q, b) in itertools.combinations(reps, 2):
                    if a is b:
                        T.violation(sub, 'compose-distinct-nodes-share', case, detail='compose/%s: places %r and %r are one node object' % (be, p, q))
    exp = predict(docs, 'load')
    T.outcome(exp[0])
    for fam, be, L in LOADERS:
        if fam not in families:
            continue
        T.evaluations += 1
        try:
            objs = list(yaml.load_all(text, Loader=L))
            got = ('ok', objs)
        except yaml.YAMLError as e:
            got = (type(e).__name__, str(e).replace('\n', ' ')[:160])
        except RecursionError as e:
            got = ('!RecursionError', '')
        except Exception as e:
            got = ('!' + type(e).__name__, str(e)[:160])
        if got[0] != exp[0]:
            T.violation(sub, 'load-outcome', case, detail='%s/%s: expected %s (%s), got %s %s' % (fam, be, exp[0], exp[1] if exp[0] != 'ok' else '', got[0], _short(got[1]) if got[0] != 'ok' else got[1]))
            continue
        if got[0] != 'ok':
            continue
        if len(objs) != len(docs):
            T.violation(sub, 'document-count', case, detail='%s/%s returned %d documents' % (fam, be, len(objs)))
            continue
        for (sk, an, al), targets, o in zip(docs, exp[1], objs):
            places = walk_result(T, sub, case, sk, targets, o, None)
            if places is not None:
                check_identity(T, sub, case, places, dict(preorder(sk)), '%s/%s' % (fam, be))
    T.nontrivial += 1 if nontriv else 0


# ---------------------------------------------------------------- plan / jobs
def plan(tier, seed):
    q = tier == 'quick'
    jobs = []
    NP = 48
    for n in (1, 2, 3):
        jobs.append(('safe', n, 0, 1))
    jobs += [('safe', 4, k, NP) for k in range(NP)]
    if q:
        jobs += [('safe', 5, k, NP * 16, seed % 16) for k in range(0, NP)]
    else:
        jobs += [('safe', 5, k, NP * 8) for k in range(NP * 8)]
    jobs += [('ext', n, k, 16) for n in (2, 3) for k in range(16)]
    jobs += [('ext', 4, k, 64) for k in range(64 if not q else 16)]
    jobs += [('multidoc', k, 8) for k in range(8)]
    jobs += [('sequencing', k, 16) for k in range(16)]
    return jobs


def run_job(job, T):
    kind = job[0]
    if kind in ('safe', 'ext'):
        n, k, np_ = job[1], job[2], job[3]
        if len(job) > 4:       # quick seed slice of the 5-node space: shard index = k + NP * slice
            k = k + 48 * job[4]
        kinds = SAFE_KINDS if kind == 'safe' else ('Q', 'M', 'SET', 'TUP', 'OBJ')
        fam = ('Safe', 'Full', 'Unsafe') if kind == 'safe' else ('Full', 'Unsafe')
        sub = 'skeletons' if kind == 'safe' else 'constructed-objects'
        last = None
        for i, sk in enumerate(skeletons(n, kinds)):
            if i % np_ != k:
                continue
            if kind == 'ext':
                ks = [s[0] for _, s in preorder(sk)]
                if 'TUP' not in ks and 'OBJ' not in ks:
                    continue
                # keep the oracle simple: instance attribute names are scalars; a mapping with a tuple / instance
                # key has that single pair only (equal tuples would collapse entries, which is C14's subject)
                if any((s[0] == 'OBJ' and any(c[0] != 'S' for c in s[1::2])) or
                       (s[0] == 'M' and len(s) > 3 and any(c[0] in ('TUP', 'OBJ', 'A') for c in s[1::2])) or
                       (s[0] == 'SET' and len(s) > 2 and any(c[0] in ('TUP', 'OBJ', 'A') for c in s[1:])) for _, s in preorder(sk)):
                    continue
            has_obj = kind == 'ext' and 'OBJ' in [s[0] for _, s in preorder(sk)]
            for anchors, aliases in decorate(sk):
                check_docs(T, sub, [(sk, anchors, aliases)], ('Unsafe',) if has_obj else fam)
                last = (sk, anchors, aliases)
        if last:
            T.sample(sub, {'doc': render(*last)})
    elif kind == 'sequencing':
        _, k, np_ = job
        i = 0
        for n in (1, 2, 3):
            for idx in itertools.product(range(len(SEQ_ITEMS)), repeat=n):
                i += 1
                if i % np_ == k:
                    check_sequencing(T, idx)
        T.sample('sequencing', {'items': [SEQ_ITEMS[j] for j in idx]})
    elif kind == 'multidoc':
        _, k, np_ = job
        firsts = [(('Q', ('S',)), {(): 'a'}, {}), (('S',), {(): 'a'}, {}), (('M', ('S',), ('Q',)), {(1,): 'a'}, {}), (('Q',), {}, {})]
        seconds = []
        for sk in [('A',), ('Q', ('A',)), ('M', ('S',), ('A',)), ('Q', ('Q',), ('A',)), ('Q', ('S',), ('A',), ('A',))]:
            for anchors, aliases in decorate(sk):
                seconds.append((sk, anchors, aliases))
        i = 0
        for f in firsts:
            for s in seconds:
                i += 1
                if i % np_ != k:
                    continue
                check_docs(T, 'cross-document', [f, s], ('Safe', 'Full', 'Unsafe'))
                check_docs(T, 'cross-document', [s, f], ('Safe',))
        T.sample('cross-document', {'doc': '--- ' + render(*f) + '\n--- ' + render(*s)})
    else:
        raise ValueError(job)


# ---------------------------------------------------------------- sequencing: a node's result must not depend on its siblings
SEQ_PRELUDE = '- &x [1, 2]\n- &y {k: v}\n'
SEQ_ITEMS = ['!!python/tuple [*x]', '!!python/object/apply:vf_shapes.make_factory [*x, 1]', '!!python/object/new:vf_shapes.NewArgs [*x, 2]',
             '!!python/object:vf_shapes.StateDict {A: *x, B: 1}', '!!python/object/apply:vf_shapes.make_factory [[*x], 1]', '&r [1, *r]', '&m {self: *m}', '&s [[*s]]',
             '&o !!python/object:vf_shapes.Plain {me: *o}', 'plain', '*x', '!!python/object/apply:vf_shapes.make_factory [*y, *x]', '!!set {a, b}',
             '!!python/object/apply:collections.OrderedDict [[[a, *x], [b, 2]]]', '&t !!python/tuple [[*t]]', '!!python/object/new:vf_shapes.Slots {state: !!python/tuple [null, {x: *x}]}',
             # self-references inside eagerly built (deep) state that cannot be built: ConstructorError, never another exception
             '!!python/object/apply:vf_shapes.make_factory [&k {*k : 1}, 1]', '!!python/object:vf_shapes.StateDict {A: &j {? *j : 1}, B: 1}',
             '!!python/object/new:vf_shapes.NewArgs [&q [!!python/tuple [*q]], 2]',
             # an anchored constructed object used as a key / set member whose own state refers back to it: buildable
             '{? &n !!python/object:vf_shapes.Plain {me: *n} : 1}', '!!set {? &p !!python/object:vf_shapes.Plain {me: *p, other: *x}}',
             '{? &u !!python/tuple [1, s] : *u}',
             # a merge key whose value leads back to the mapping that holds it: merging a mapping into itself adds nothing,
             # merging an enclosing mapping makes the inner one contain itself - built, never an endless recursion
             '&b {<<: *b, k: v}', '&b {k: v, <<: &c {<<: [*b], j: w}}', '&b {k: v, n: {<<: *b}}']
# absolute expectations for some items (index -> outcome class when loaded alone after the prelude, optional verifier)
SEQ_EXPECT = {5: ('ok', lambda item: item[1] is item), 6: ('ok', lambda item: item['self'] is item), 7: ('ok', lambda item: item[0][0] is item), 8: ('ok', lambda item: item.me is item),
              14: ('ok', lambda item: item[0][0] is item), 16: ('ConstructorError', None), 17: ('ConstructorError', None),
              19: ('ok', lambda item: len(item) == 1 and list(item)[0].me is list(item)[0]),
              20: ('ok', lambda item: len(item) == 1 and list(item)[0].me is list(item)[0]),
              21: ('ok', lambda item: list(item.values())[0] is list(item)[0]),
              22: ('ok', lambda item: item == {'k': 'v'}), 23: ('ok', lambda item: dict(item) == {'k': 'v', 'j': 'w'}),
              24: ('ok', lambda item: sorted(item) == ['k', 'n'] and sorted(item['n']) == ['k', 'n'] and item['n']['n'] is item['n'] and item['n']['k'] == 'v')}
_ALONE = {}


def _seq_load(text, L):
    try:
        return ('ok', yaml.load(text, Loader=L))
    except yaml.YAMLError as e:
        return (type(e).__name__, str(e).replace('\n', ' ')[:120])
    except RecursionError:
        return ('!RecursionError', '')
    except Exception as e:
        return ('!' + type(e).__name__, str(e)[:120])


def check_sequencing(T, idx):
    """[x, y, item_1 .. item_n] loaded by the unsafe loaders: every item must be what it is when it is the only item after
    the prelude (differential oracle: the state reached after other nodes were built vs the initial state)"""
    from .c17 import canon as ocanon
    import vf_shapes
    import re as _re
    items = []
    for pos, j in enumerate(idx):
        it = SEQ_ITEMS[j]
        # anchors defined inside an item get a per-position suffix so that repeated items do not clash
        for nm in set(_re.findall(r'&([a-z])\b', it)):
            it = _re.sub(r'([&*])%s\b' % nm, r'\g<1>%s%d' % (nm, pos), it)
        items.append(it)
    text = SEQ_PRELUDE + ''.join('- %s\n' % it for it in items)
    case = {'doc': text, 'items': list(idx)}
    if T.trace: T.begin(case)
    for ln, L in (('Unsafe/py', yaml.UnsafeLoader), ('Unsafe/c', yaml.CUnsafeLoader)):
        T.evaluations += 1
        got = _seq_load(text, L)
        want_items = []
        bad = None
        for j in idx:
            key = (ln, j)
            if key not in _ALONE:
                r = _seq_load(SEQ_PRELUDE + '- %s\n' % SEQ_ITEMS[j], L)
                _ALONE[key] = (r[0], ocanon(r[1]) if r[0] == 'ok' else r[1])
                if j in SEQ_EXPECT:
                    want_cls, verify = SEQ_EXPECT[j]
                    if r[0] != want_cls:
                        T.violation('sequencing', 'item-outcome', {'doc': SEQ_PRELUDE + '- %s\n' % SEQ_ITEMS[j], 'items': [j]},
                                    detail='%s: %s alone gives %s %s, expected %s' % (ln, SEQ_ITEMS[j], r[0], r[1] if r[0] != 'ok' else '', want_cls))
                    elif verify is not None and not verify(r[1][2]):
                        T.violation('sequencing', 'item-identity', {'doc': SEQ_PRELUDE + '- %s\n' % SEQ_ITEMS[j], 'items': [j]},
                                    detail='%s: %s loads, but the self-reference inside the key does not denote the key object' % (ln, SEQ_ITEMS[j]))
            if _ALONE[key][0] != 'ok':
                bad = _ALONE[key][0]
            want_items.append(_ALONE[key])
        if bad:
            if got[0] == 'ok':
                T.violation('sequencing', 'error-depends-on-siblings', case, detail='%s: an item that is rejected (%s) on its own is accepted among siblings in %r' % (ln, bad, text))
            continue
        if got[0] != 'ok':
            T.violation('sequencing', 'outcome-depends-on-siblings', case, detail='%s: every item loads on its own, together %r gives %s %s' % (ln, text, got[0], got[1]))
            continue
        for pos, (j, w) in enumerate(zip(idx, want_items)):
            sub = [got[1][0], got[1][1], got[1][2 + pos]]
            if ocanon(sub) != w[1]:
                T.violation('sequencing', 'result-depends-on-siblings', case, detail='%s: item %d (%s) of %r is %s; alone after the prelude it is %s' % (ln, pos, SEQ_ITEMS[j], text, _short(ocanon(sub)), _short(w[1])))
                break
    T.nontrivial += 1


def _fix(x):
    return tuple(_fix(i) for i in x) if isinstance(x, (list, tuple)) else x


def replay(sub, case, T):
    if sub == 'sequencing':
        check_sequencing(T, tuple(case['items']))
        return
    docs = []
    for sk, an, al in case['skeleton']:
        docs.append((_fix(sk), {tuple(p): n for p, n in an}, {tuple(p): n for p, n in al}))
    check_docs(T, sub, docs, tuple(case.get('families') or ('Safe', 'Full', 'Unsafe')))


def snippet(sub, case):
    return ('import yaml\ndoc = %r\nfor L in (yaml.SafeLoader, yaml.CSafeLoader, yaml.FullLoader, yaml.UnsafeLoader):\n'
            '    try: print(L.__name__, list(yaml.load_all(doc, Loader=L)))\n    except yaml.YAMLError as e: print(L.__name__, type(e).__name__, e)\n' % case['doc'])


def selftest():
    import vf_shapes
    sk = ('Q', ('M', ('S',), ('A',)), ('A',))
    assert render(sk, {(): 'a', (0,): 'b'}, {(0, 1): 'a', (1,): 'b'}) == '&a [&b {? s0 : *a}, *b]'
    assert predict([(sk, {(): 'a', (0,): 'b'}, {(0, 1): 'a', (1,): 'b'})], 'load') == ('ok', [{(0, 1): (), (1,): (0,)}])
    assert predict([(sk, {(): 'a'}, {(0, 1): 'a', (1,): 'b'})], 'load')[0] == 'ComposerError'
    assert predict([(sk, {(): 'a', (0,): 'a'}, {(0, 1): 'a', (1,): 'a'})], 'load')[0] == 'ComposerError'
    assert predict([(('M', ('A',), ('S',)), {(): 'a'}, {(0,): 'a'})], 'load')[0] == 'ConstructorError'
    assert predict([(('M', ('A',), ('S',)), {(): 'a'}, {(0,): 'a'})], 'compose')[0] == 'ok'
    assert predict([(('SET', ('Q',)), {}, {})], 'load')[0] == 'ConstructorError'
    assert predict([(('OMAP', ('Q',), ('S',)), {}, {})], 'load')[0] == 'ok'
    assert predict([(('TUP', ('A',)), {(): 'a'}, {(0,): 'a'})], 'load')[0] == 'ConstructorError'
    assert render(('OMAP', ('S',), ('S',)), {}, {}) == '!!omap [{? s0 : s1}]' and render(('SET', ('S',), ('S',)), {}, {}) == '!!set {? s0, ? s1}'
    assert sum(1 for _ in skeletons(3, SAFE_KINDS)) > 50
