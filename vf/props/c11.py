"""C11 - every call and every document stands alone (E3 over call histories with fork as state copy; E1 over streams)."""
import hashlib, io, itertools, json, os, re, subprocess, sys, types
import yaml
from .. import events as E
from ..oracles import graph

ID = 'C11'
LEVEL = 'model_checking'
RULE = ('explicit-state search over API-call histories: a state is a live interpreter image; from a fresh interpreter every '
        'history of <=D calls over a pool of ~70 calls (load / load_all fully consumed, abandoned after one item, abandoned '
        'unstarted / compose / parse / scan of plain, anchored, recursive, %YAML+%TAG with custom and redefined default handles, '
        'implicit, scanner-error, parser-error, undefined-alias, unknown-tag and error-in-second-document inputs; dump / dump_all '
        '/ serialize / emit of scalars, shared and recursive containers, tags=, version=, custom objects, an ill-formed event '
        'list failing half-way, a representer error half-way; both back-ends) is executed with os.fork() copying the state '
        'before each extension, so every history runs in exactly the state its prefix left. After EVERY call the result must '
        'equal the result of the same call alone in a fresh interpreter (O-fresh) and the deep snapshot of all module-level and '
        'class-level containers of every yaml.* module (contents of dict/list/set/tuple, regex patterns, function identities) '
        'must equal the start snapshot. Streams: every stream of <=3 documents over a 14-document pool: load_all / compose_all / '
        'parse of the concatenation equals the per-document results (errors included), for Safe/Full/Unsafe x both back-ends. '
        'non-trivial = history of >= 2 calls, or a stream of >= 2 documents')
ASSUMPTIONS = ['fork() is used as the state-copy operation of the explicit-state search (the C extension holds no threads or descriptors)',
               'results are compared through canonical forms (graph bisimulation, event descriptors, node graphs, exception class + message)']

HERE = os.path.dirname(os.path.dirname(os.path.dirname(os.path.abspath(__file__))))


def bounds(tier, seed):
    q = tier == 'quick'
    return {'history_length': '2 everywhere; 3 for first calls with index % 8 == seed % 8' if q else 3, 'calls': len(pool()), 'stream_documents': 3, 'stream_pool': len(DOCS),
            }


# ---------------------------------------------------------------- canonical results
def node_canon(nodes):
    ids = {}

    def walk(nd):
        if id(nd) in ids:
            return ('ref', ids[id(nd)])
        ids[id(nd)] = len(ids)
        n = type(nd).__name__
        if n == 'ScalarNode':
            return ('S', nd.tag, nd.value)
        if n == 'SequenceNode':
            return ('Q', nd.tag, tuple(walk(c) for c in nd.value))
        return ('M', nd.tag, tuple((walk(k), walk(v)) for k, v in nd.value))
    return [walk(nd) for nd in nodes]


def _obj_hook(o, walk, n):
    d = getattr(o, '__dict__', None)
    return ('obj', type(o).__module__ + '.' + type(o).__qualname__, n, tuple((k, walk(v)) for k, v in sorted(d.items())) if isinstance(d, dict) else repr(o))


def run(fn):
    """canonical outcome of one API call"""
    try:
        r = fn()
    except yaml.YAMLError as e:
        return 'ERR %s: %s' % (type(e).__name__, str(e))
    except Exception as e:
        return 'EXC %s: %s' % (type(e).__name__, str(e))
    return 'OK ' + r


def tok(t):
    return (type(t).__name__, getattr(t, 'value', None) if not isinstance(getattr(t, 'value', None), tuple) else tuple(t.value), t.start_mark.index, t.end_mark.index)


class Thing:
    def __init__(self):
        self.a = 1
        self.b = [2]


class Odd(Thing):
    pass


class NoRep:
    def __repr__(self):
        return 'NoRep()'


class RLoader(yaml.SafeLoader):
    pass


class RDumper(yaml.SafeDumper):
    pass


# a wildcard (first=None) resolver plus a resolver for specific first characters, as applications register them
RLoader.add_implicit_resolver('!any-span', re.compile(r'^[0-9a-z]+-[0-9a-z]+$'), None)
RLoader.add_implicit_resolver('!digit-span', re.compile(r'^[0-9]+-[0-9]+$'), list('0123456789'))
RDumper.add_implicit_resolver('!any-span', re.compile(r'^[0-9a-z]+-[0-9a-z]+$'), None)
RDumper.add_implicit_resolver('!digit-span', re.compile(r'^[0-9]+-[0-9]+$'), list('0123456789'))


LOAD_DOCS = [
    ('plain', 'a: 1\nb: [x, 2.5, ~]\n'), ('anchored', '- &a [1, 2]\n- *a\n- &b {k: *a}\n- *b\n'), ('recursive', '&r [1, *r, {k: *r}]\n'),
    ('directives', '%YAML 1.1\n%TAG !e! tag:e.com,2000:\n--- !e!x\n- !e!y z\n'), ('redef-bang', '%TAG ! tag:e.com,2000:\n--- !x y\n'),
    ('redef-bangbang', '%TAG !! tag:e.com,2000:\n--- !!x y\n'), ('implicit-multi', 'a\n--- b\n...\n--- c\n'), ('scanner-error', 'a: [1, 2\nb: "x\n'),
    ('parser-error', 'a: b: c\n- d\n'), ('undef-alias', '- &a x\n- *u\n'), ('unknown-tag', '- 1\n- !nope x\n'), ('error-in-2nd', 'a: 1\n--- &a x\n--- [*a, *zz]\n'),
    ('handles-then-plain', '%TAG !e! tag:e.com,2000:\n--- !e!x y\n--- !!str z\n'), ('dup-anchor', '- &a 1\n- &a 2\n'), ('bin-ts', '[!!binary aGk=, 2001-01-01 10:00:00 +1, 1:30, 0x1f]\n'),
]


def pool():
    P = []

    def add(name, fn):
        P.append((name, fn))
    for be, S, F, U in (('py', yaml.SafeLoader, yaml.FullLoader, yaml.UnsafeLoader), ('c', yaml.CSafeLoader, yaml.CFullLoader, yaml.CUnsafeLoader)):
        for dn, d in LOAD_DOCS:
            if dn in ('directives', 'redef-bang', 'redef-bangbang', 'handles-then-plain'):
                add('compose_all/%s/%s' % (be, dn), lambda d=d, L=S: repr(node_canon(list(yaml.compose_all(d, Loader=L)))))
                add('parse/%s/%s' % (be, dn), lambda d=d, L=S: repr(E.describe_all(yaml.parse(d, Loader=L))))
            else:
                add('load_all/%s/%s' % (be, dn), lambda d=d, L=S: repr(graph.canon(list(yaml.load_all(d, Loader=L)))))
        add('scan/%s/anchored' % be, lambda L=S: repr([tok(t) for t in yaml.scan(LOAD_DOCS[1][1], Loader=L)]))
        add('load/%s/plain-full' % be, lambda L=F: repr(graph.canon(yaml.load(LOAD_DOCS[0][1], Loader=L))))
        add('load/%s/object-unsafe' % be, lambda L=U: repr(graph.canon(yaml.load('!!python/object:vf.props.c11.Thing {a: 5}\n', Loader=L), obj_hook=_obj_hook)))
        add('load_all-abandoned-after-one/%s' % be, lambda L=S: _abandon(L, 1))
        add('load_all-abandoned-unstarted/%s' % be, lambda L=S: _abandon(L, 0))
        add('parse-abandoned/%s/error-later' % be, lambda L=S: repr(E.describe(next(iter(yaml.parse('a: 1\n--- [\n', Loader=L))))))
    for text in ('10', '1-5', 'a-b', 'yes', '[1-5, 10, n-o, ~]'):
        add('compose/custom-resolvers/%s' % text, lambda t=text: repr(node_canon([yaml.compose(t, Loader=RLoader)])))
    add('dump/custom-resolvers', lambda: yaml.dump(['1-5', 'a-b', '10', 'yes', 'x'], Dumper=RDumper))
    add('dump/custom-resolvers/ints', lambda: yaml.dump([10, 'n', '7-7'], Dumper=RDumper))
    for be, SD, D in (('py', yaml.SafeDumper, yaml.Dumper), ('c', yaml.CSafeDumper, yaml.CDumper)):
        add('dump/%s/scalars' % be, lambda Dm=SD: yaml.dump([1, 'a', None, 2.5, 'yes', '1', b'x'], Dumper=Dm))
        add('dump/%s/shared' % be, lambda Dm=SD: yaml.dump(_shared(), Dumper=Dm))
        add('dump/%s/recursive' % be, lambda Dm=SD: yaml.dump(_rec(), Dumper=Dm))
        add('dump_all/%s/shared-twice' % be, lambda Dm=SD: yaml.dump_all([_shared(), _shared(), 'x'], Dumper=Dm))
        add('dump/%s/tags-version' % be, lambda Dm=SD: yaml.dump({'a': 1}, Dumper=Dm, tags={'!e!': 'tag:e.com,2000:'}, version=(1, 1), explicit_end=True))
        add('dump/%s/object' % be, lambda Dm=D: yaml.dump([Thing(), Odd()], Dumper=Dm))
        add('dump/%s/object-shared' % be, lambda Dm=D: yaml.dump(_objshared(), Dumper=Dm))
        add('dump/%s/representer-error' % be, lambda Dm=SD: yaml.dump([_shared(), {'k': NoRep()}], Dumper=Dm))
        add('serialize/%s/shared-node' % be, lambda Dm=D: yaml.serialize(_node(), Dumper=Dm))
        add('emit/%s/good' % be, lambda Dm=D: yaml.emit(E.build_all(E.stream(E.doc(E.seq([[E.S('x', anchor='a')], [('ALIAS', 'a')]]), tags=(('!e!', 'tag:e.com,2000:'),)))), Dumper=Dm))
        add('emit/%s/ill-formed-half-way' % be, lambda Dm=D: yaml.emit(E.build_all([('SS',), ('DS', True, None, (('!e!', 'tag:e.com,2000:'),)), ('SEQ_S', 'a', None, True, False), ('DE', False)]), Dumper=Dm))
        add('dump/%s/styles' % be, lambda Dm=SD: yaml.dump({'k': 'multi\nline\n', 'j': ['a b c d e f g'] * 3}, Dumper=Dm, default_style='|', width=10, indent=4, allow_unicode=True))
    return P


def _shared():
    s = [1, 2]
    return {'a': s, 'b': [s, s], 'c': {'d': s}}


def _rec():
    r = {'k': [1]}
    r['k'].append(r)
    return r


def _objshared():
    t = Thing()
    return [t, {'t': t}, Odd()]


def _node():
    s = yaml.SequenceNode('tag:yaml.org,2002:seq', [yaml.ScalarNode('tag:yaml.org,2002:str', 'x')])
    return yaml.MappingNode('tag:yaml.org,2002:map', [(yaml.ScalarNode('tag:yaml.org,2002:str', 'k'), s), (yaml.ScalarNode('tag:yaml.org,2002:str', 'j'), s)])


def _abandon(L, n):
    g = yaml.load_all('a: &x 1\n--- b\n--- [\n', Loader=L)
    out = []
    for _ in range(n):
        out.append(next(g))
    del g
    return repr(out)


# ---------------------------------------------------------------- global state snapshot
def global_snapshot(subclasses=True):
    """digest of every module-level and class-level container of every yaml.* module (generic walk, no attribute names)"""
    items = []
    seen = set()

    def val(v, depth=0):
        if depth > 6:
            return '...'
        if isinstance(v, (str, bytes, int, float, bool, type(None))):
            return repr(v)
        if isinstance(v, re.Pattern):
            return 're(%r,%d)' % (v.pattern, v.flags)
        if isinstance(v, (types.FunctionType, types.BuiltinFunctionType, types.MethodType, type, classmethod, staticmethod)):
            f = getattr(v, '__func__', v)
            return 'fn:%s.%s' % (getattr(f, '__module__', '?'), getattr(f, '__qualname__', repr(f)))
        if isinstance(v, dict):
            return '{' + ','.join(sorted('%s:%s' % (val(k, depth + 1), val(x, depth + 1)) for k, x in v.items())) + '}'
        if isinstance(v, (list, tuple)):
            return '[' + ','.join(val(x, depth + 1) for x in v) + ']'
        if isinstance(v, (set, frozenset)):
            return 'set(' + ','.join(sorted(val(x, depth + 1) for x in v)) + ')'
        if isinstance(v, types.ModuleType):
            return 'mod:' + v.__name__
        return 'obj:' + type(v).__name__
    for mn in sorted(sys.modules):
        if mn != 'yaml' and not mn.startswith('yaml.'):
            continue
        m = sys.modules[mn]
        if m is None:
            continue
        for an, av in sorted(vars(m).items()):
            if an.startswith('__') and an.endswith('__'):
                continue
            if isinstance(av, type):
                if getattr(av, '__module__', '').startswith('yaml') and av not in seen:
                    seen.add(av)
                    for cn, cv in sorted(vars(av).items()):
                        if cn in ('__dict__', '__weakref__', '__doc__', '__module__', '__qualname__'):
                            continue
                        items.append('%s.%s.%s=%s' % (mn, av.__name__, cn, val(cv)))
            else:
                items.append('%s.%s=%s' % (mn, an, val(av)))
    # registries of every live subclass of the library's resolver / constructor / representer classes (user code owns the
    # registrations, but no load / dump / scan / ... call may ever change them)
    seen_cls = set()
    stack = [yaml.resolver.BaseResolver, yaml.constructor.BaseConstructor, yaml.representer.BaseRepresenter] if subclasses else []
    while stack:
        c = stack.pop()
        if c in seen_cls:
            continue
        seen_cls.add(c)
        stack.extend(c.__subclasses__())
        if getattr(c, '__module__', '').startswith('yaml'):
            continue
        for k in ('yaml_constructors', 'yaml_multi_constructors', 'yaml_representers', 'yaml_multi_representers', 'yaml_implicit_resolvers', 'yaml_path_resolvers'):
            if k in c.__dict__:
                items.append('subclass %s.%s.%s=%s' % (c.__module__, c.__qualname__, k, val(c.__dict__[k])))
    items.sort()
    return items


def snap_digest(items):
    return hashlib.sha1('\n'.join(items).encode('utf-8', 'backslashreplace')).hexdigest()


# ---------------------------------------------------------------- the forked search (runs in a fresh interpreter)
def child_main():
    """stdin: JSON {first, depth, baseline{name: result-digest}, second_filter}; stdout: JSON lines"""
    spec = json.loads(sys.stdin.read())
    P = pool()
    names = [n for n, _ in P]
    base = spec['baseline']
    out = sys.stdout
    snap0 = global_snapshot()
    d0 = snap_digest(snap0)
    stats = {'executions': 0, 'states': 0, 'transitions': 0}

    def step(hist, idx):
        """execute call idx in the current process; returns list of violation dicts"""
        name, fn = P[idx]
        res = run(fn)
        v = []
        dg = hashlib.sha1(res.encode('utf-8', 'backslashreplace')).hexdigest()
        if dg != base[name]['digest']:
            v.append({'kind': 'result-depends-on-history', 'history': hist + [name], 'detail': 'after %r the call %s gives %s; alone in a fresh interpreter it gives %s'
                      % (hist, name, res[:300], base[name]['text'][:300])})
        s = global_snapshot()
        if snap_digest(s) != d0:
            diff = [x for x in s if x not in set(snap0)][:3] + ['-' + x for x in snap0 if x not in set(s)][:3]
            v.append({'kind': 'global-state-changed', 'history': hist + [name], 'detail': 'library-global state differs after %r: %s' % (hist + [name], [d[:200] for d in diff])})
        return v

    def explore(hist, idxs, depth):
        # current process state == state after `hist`
        for j in range(len(P)):
            if depth == spec['depth'] and spec.get('second_filter') is not None and len(hist) == spec['depth'] - 1 and False:
                continue
            r, w = os.pipe()
            pid = os.fork()
            if pid == 0:
                os.close(r)
                try:
                    v = step(hist, j)
                    payload = {'v': v, 'sub': None}
                    if len(hist) + 1 < spec['depth'] and not v:
                        # go deeper from this state; collect from grandchildren through our own pipe
                        sub = explore_collect(hist + [names[j]], depth)
                        payload['sub'] = sub
                    os.write(w, json.dumps(payload).encode())
                finally:
                    os._exit(0)
            os.close(w)
            buf = b''
            while True:
                chunk = os.read(r, 65536)
                if not chunk:
                    break
                buf += chunk
            os.close(r)
            os.waitpid(pid, 0)
            yield j, (json.loads(buf.decode()) if buf else {'v': [{'kind': 'child-died', 'history': hist + [names[j]], 'detail': 'forked child produced no result (crash?)'}], 'sub': None})

    def explore_collect(hist, depth):
        acc = {'violations': [], 'executions': 0}
        for j, payload in explore(hist, None, depth):
            acc['executions'] += 1
            acc['violations'] += payload['v']
            if payload['sub']:
                acc['executions'] += payload['sub']['executions']
                acc['violations'] += payload['sub']['violations']
            if len(acc['violations']) > 20:
                break
        return acc

    first = spec['first']
    v = step([], first)
    acc = {'violations': list(v), 'executions': 1}
    if spec['depth'] > 1 and not v:
        sub = explore_collect([names[first]], spec['depth'])
        acc['executions'] += sub['executions']
        acc['violations'] += sub['violations']
    out.write(json.dumps(acc) + '\n')
    out.flush()


def fresh(code, stdin=None, timeout=900):
    env = dict(os.environ)
    p = subprocess.run([sys.executable, '-c', code], input=stdin, capture_output=True, text=True, timeout=timeout, env=env, cwd=HERE)
    if p.returncode != 0:
        raise RuntimeError('fresh interpreter failed: %s' % p.stderr[-1500:])
    return p.stdout


def baseline_for(indices):
    """O-fresh: each call alone in its own fresh interpreter"""
    out = {}
    for i in indices:
        code = ('import json, hashlib\nfrom vf.props import c11\nP = c11.pool()\nn, fn = P[%d]\nr = c11.run(fn)\n'
                'print(json.dumps({"name": n, "text": r[:600], "digest": hashlib.sha1(r.encode("utf-8", "backslashreplace")).hexdigest()}))\n' % i)
        d = json.loads(fresh(code).strip().splitlines()[-1])
        out[d['name']] = {'text': d['text'], 'digest': d['digest']}
    return out


# ---------------------------------------------------------------- streams (E1, in-process)
DOCS = ['--- a: 1\n', '--- &a [x]\n', '--- *a\n', '--- [&a y, *a]\n', '%TAG !e! tag:e.com,2000:\n--- !e!t v\n', '--- !e!t w\n', '%YAML 1.1\n--- z\n', '--- >\n folded\n text\n',
        '--- "quoted"\n...\n', '--- !!str\n', '---\n', '%TAG ! tag:x.org,2000:\n--- !loc v\n', '--- !loc v\n', '--- {k: &b {j: 1}, l: *b}\n',
        '--- &a s\n', '--- &b {j: 1}\n', "--- 'sq'\n", '--- |\n lit\n',
        # a plain root scalar followed by blank / space-only lines: the next document marker still ends it
        '--- pl\n\n', '--- pl two\n \n\n']
# documents after which a '%' line cannot be taken for the continuation of a plain scalar: a directive may follow them
# directly (both back-ends accept that), so streams are also built without the explicit document end in between
CLOSED = {1, 3, 7, 8, 9, 10, 13, 15, 16, 17}
STREAM_LOADERS = [('Safe/py', yaml.SafeLoader), ('Safe/c', yaml.CSafeLoader), ('Full/py', yaml.FullLoader), ('Unsafe/py', yaml.UnsafeLoader), ('Unsafe/c', yaml.CUnsafeLoader)]


def per_doc(api, text, L):
    """result of one document on its own: ('ok', canon) or ('err', class)"""
    try:
        if api == 'load':
            return ('ok', repr(graph.canon(list(yaml.load_all(text, Loader=L)))))
        if api == 'compose':
            return ('ok', repr(node_canon(list(yaml.compose_all(text, Loader=L)))))
        return ('ok', repr([_nomark(d) for d in E.describe_all(yaml.parse(text, Loader=L))[1:-1]]))
    except yaml.YAMLError as e:
        return ('err', type(e).__name__)


def _nomark(d):
    return ('DE',) if d[0] == 'DE' else d      # an inserted '...' makes the end explicit: presentation, not content


def stream_result(api, text, L):
    """documents delivered one by one until an error"""
    out = []
    try:
        if api == 'load':
            for d in yaml.load_all(text, Loader=L):
                out.append(('ok', repr(graph.canon([d]))))
        elif api == 'compose':
            for n in yaml.compose_all(text, Loader=L):
                out.append(('ok', repr(node_canon([n]))))
        else:
            cur = []
            for ev in yaml.parse(text, Loader=L):
                d = E.describe(ev)
                if d[0] in ('SS', 'SE'):
                    continue
                cur.append(_nomark(d))
                if d[0] == 'DE':
                    out.append(('ok', repr(cur)))
                    cur = []
    except yaml.YAMLError as e:
        out.append(('err', type(e).__name__))
    return out


def check_stream(T, ids, variants=(True, False)):
    texts = []
    for always in variants:
        text = ''
        for n, i in enumerate(ids):
            # a document that carries directives is preceded by an explicit document end: always (first variant), or only
            # where YAML needs it (an open-ended plain scalar would otherwise swallow the '%' line)
            if n and DOCS[i].startswith('%') and not text.endswith('...\n') and (always or ids[n - 1] not in CLOSED):
                text += '...\n'
            text += DOCS[i]
        if text not in texts:
            texts.append(text)
    for text in texts:
        _check_stream_text(T, ids, text)
    T.nontrivial += 1 if len(ids) >= 2 else 0


def _check_stream_text(T, ids, text):
    for ln, L in STREAM_LOADERS:
        for api in ('load', 'compose', 'parse'):
            if api != 'load' and not ln.startswith('Safe'):
                continue
            T.evaluations += 1
            case = {'docs': list(ids), 'api': api, 'loader': ln}
            if T.trace: T.begin(case)
            want = []
            for i in ids:
                r = per_doc(api, DOCS[i], L)
                want.append(r)
                if r[0] == 'err':
                    break
            got = stream_result(api, text, L)
            if got != want:
                k = next((j for j in range(min(len(got), len(want))) if got[j] != want[j]), min(len(got), len(want)))
                T.violation('streams', 'document-not-independent', case,
                            detail='%s %s of %r: document %d gives %s in the stream but %s on its own' % (ln, api, text, k, (got[k] if k < len(got) else 'nothing')[:2] if k < len(got) else 'nothing', want[k] if k < len(want) else 'nothing'))


# ---------------------------------------------------------------- dump-side streams: each document of dump_all stands alone
def _dv_shared():
    s = [1, 2]
    return {'a': s, 'b': s}


DUMP_DOCS = [('shared', _dv_shared), ('plain', lambda: {'k': [1, 'x']}), ('rec', _rec), ('objs', _objshared), ('str', lambda: 'needs: quoting'), ('date-twice', lambda: (lambda d: [d, d])(__import__('datetime').date(2001, 1, 1)))]


def check_dump_stream(T, ids, mode):
    """dump_all(docs) must be the concatenation of what each document gives on its own (explicit starts), also when the
    SAME object is handed over twice, when it is changed in between, and when the documents are short-lived temporaries"""
    for dn, Dm in (('py', yaml.Dumper), ('c', yaml.CDumper)):
        T.evaluations += 1
        case = {'dump_docs': list(ids), 'mode': mode, 'dumper': dn}
        expected = []
        cache = {}

        def feed():
            for n, i in enumerate(ids):
                if mode == 'same-objects':
                    v = cache.setdefault(i, DUMP_DOCS[i][1]())
                elif mode == 'mutated' and n and isinstance(cache.get('last'), (list, dict)) and i == ids[n - 1]:
                    v = cache['last']
                    (v.append('more') if isinstance(v, list) else v.__setitem__('more', n))
                else:
                    v = DUMP_DOCS[i][1]()
                cache['last'] = v
                expected.append(yaml.dump(v, Dumper=Dm, explicit_start=True))
                yield v
        try:
            text = yaml.dump_all(feed(), Dumper=Dm, explicit_start=True)
        except Exception as e:
            T.violation('dump-streams', 'exception:' + type(e).__name__, case, detail=str(e)[:200])
            continue
        if text != ''.join(expected):
            T.violation('dump-streams', 'document-not-independent', case, detail='%s dump_all gives %r but the documents dumped one by one give %r' % (dn, text[:300], ''.join(expected)[:300]))
    T.nontrivial += 1 if len(ids) >= 2 else 0


EV_DOCS = [
    E.doc([E.S('v', tag='tag:e.com,2000:t', implicit=(False, False), style="'")], explicit=True, tags=(('!e!', 'tag:e.com,2000:'),)),
    E.doc([E.S('w', tag='tag:e.com,2000:t', implicit=(False, False), style="'")], explicit=True),
    E.doc([E.S('x', tag='tag:e.com,2000:t', implicit=(False, False), style="'")], explicit=True, tags=(('!e!', 'tag:other.org,2011:'),)),
    E.doc(E.seq([E.seq([[E.S('1')]], anchor='a'), [('ALIAS', 'a')]]), explicit=True),
    E.doc(E.mapping([([E.S('k', anchor='a')], [E.S('needs: quoting')])]), explicit=True, version=(1, 1)),
    E.doc([E.S('y', tag='tag:yaml.org,2002:str', implicit=(False, False), style="'")], explicit=True, tags=(('!!', 'tag:e.com,2000:'),)),
]


def _nodes_pool():
    leaf = yaml.ScalarNode('tag:yaml.org,2002:str', 'leaf')
    sub = yaml.SequenceNode('tag:yaml.org,2002:seq', [yaml.ScalarNode('tag:yaml.org,2002:int', '7')])
    return [yaml.SequenceNode('tag:yaml.org,2002:seq', [leaf, sub]), yaml.MappingNode('tag:yaml.org,2002:map', [(yaml.ScalarNode('tag:yaml.org,2002:str', 'k'), sub)]),
            yaml.SequenceNode('tag:yaml.org,2002:seq', [sub, sub]), leaf, yaml.SequenceNode('tag:yaml.org,2002:seq', [])]


def _same_docs(whole, parts):
    """the stream text denotes exactly the documents of the single texts, in order (events compared; whether a '...' is
    written between two documents is presentation and differs between the emitters)"""
    def docs(text):
        out, cur = [], []
        for ev in yaml.parse(text, Loader=yaml.SafeLoader):
            d = E.describe(ev)
            if d[0] in ('SS', 'SE'):
                continue
            cur.append(_nomark(d) if d[0] != 'DS' else ('DS', None, d[2], d[3]))
            if d[0] == 'DE':
                out.append(cur)
                cur = []
        return out
    try:
        a = docs(whole)
        b = [d for p_ in parts for d in docs(p_)]
    except yaml.YAMLError:
        return False
    return a == b


def check_emit_stream(T, ids):
    """emit / serialize_all of several documents == the documents emitted / serialized one by one (explicit starts)"""
    for dn, Dm in (('py', yaml.Dumper), ('c', yaml.CDumper)):
        T.evaluations += 1
        case = {'event_docs': list(ids), 'dumper': dn}
        try:
            whole = yaml.emit(E.build_all(E.stream(*[EV_DOCS[i] for i in ids])), Dumper=Dm)
            parts = ''.join(yaml.emit(E.build_all(E.stream(EV_DOCS[i])), Dumper=Dm) for i in ids)
        except Exception as e:
            T.violation('dump-streams', 'exception:' + type(e).__name__, case, detail=str(e)[:200])
            continue
        if not _same_docs(whole, [yaml.emit(E.build_all(E.stream(EV_DOCS[i])), Dumper=Dm) for i in ids]):
            T.violation('dump-streams', 'document-not-independent', case, detail='%s emit of the stream gives %r, the documents one by one give %r' % (dn, whole[:300], parts[:300]))
        T.evaluations += 1
        case = {'node_docs': list(ids), 'dumper': dn}
        pool = _nodes_pool()
        nodes = [pool[i % len(pool)] for i in ids]
        try:
            whole = yaml.serialize_all(nodes, Dumper=Dm, explicit_start=True)
            parts = ''.join(yaml.serialize(n, Dumper=Dm, explicit_start=True) for n in nodes)
        except Exception as e:
            T.violation('dump-streams', 'exception:' + type(e).__name__, case, detail=str(e)[:200])
            continue
        if not _same_docs(whole, [yaml.serialize(n, Dumper=Dm, explicit_start=True) for n in nodes]):
            T.violation('dump-streams', 'document-not-independent', case, detail='%s serialize_all gives %r, the nodes one by one give %r' % (dn, whole[:300], parts[:300]))
    T.nontrivial += 1 if len(ids) >= 2 else 0


# ---------------------------------------------------------------- engine interface
def plan(tier, seed):
    q = tier == 'quick'
    n = len(pool())
    from concurrent.futures import ThreadPoolExecutor
    with ThreadPoolExecutor(16) as ex:
        parts = list(ex.map(lambda i: baseline_for([i]), range(n)))
    base = {}
    for p_ in parts:
        base.update(p_)
    jobs = [('baseline', k, 16) for k in range(16)]
    # quick: all histories of length 2, and length 3 for the first calls with index % 8 == seed % 8
    jobs += [('hist', i, (3 if (not q or i % 8 == seed % 8) else 2), base) for i in range(n)]
    jobs += [('streams', k, 16) for k in range(16)]
    jobs.append(('dumpstreams',))
    return jobs


_BASE = None


def _baseline_all():
    """computed once per worker (cached on disk under the evidence dir's parent scratch so that all workers share it)"""
    global _BASE
    if _BASE is None:
        _BASE = baseline_for(range(len(pool())))
    return _BASE


def run_job(job, T):
    kind = job[0]
    if kind == 'baseline':
        # consistency of O-fresh itself: the same call alone in two fresh interpreters gives the same result
        _, k, np_ = job
        idx = [i for i in range(len(pool())) if i % np_ == k]
        a = baseline_for(idx)
        b = baseline_for(idx)
        for name in a:
            T.evaluations += 2
            if a[name]['digest'] != b[name]['digest']:
                raise RuntimeError('harness nondeterminism: call %s differs between two fresh interpreters: %r vs %r' % (name, a[name]['text'][:200], b[name]['text'][:200]))
        T.extra = {'baseline': a}
        T.sample('fresh-baseline', {'call': name, 'result': a[name]['text'][:120]})
    elif kind == 'hist':
        _, first, depth, base = job
        spec = {'first': first, 'depth': depth, 'baseline': base}
        out = fresh('from vf.props import c11; c11.child_main()', stdin=json.dumps(spec))
        acc = json.loads(out.strip().splitlines()[-1])
        T.evaluations += acc['executions']
        T.transitions += acc['executions']
        T.states += acc['executions']
        T.nontrivial += max(0, acc['executions'] - 1)
        T.count('traces_validated_against_impl', acc['executions'])
        for v in acc['violations']:
            T.violation('histories', v['kind'], {'history': v['history']}, detail=v['detail'])
        T.sample('histories', {'first': pool()[first][0], 'depth': depth, 'executions': acc['executions']})
    elif kind == 'dumpstreams':
        ids = ()
        for n in (1, 2, 3):
            for ids in itertools.product(range(len(DUMP_DOCS)), repeat=n):
                for mode in ('fresh', 'same-objects', 'mutated'):
                    check_dump_stream(T, ids, mode)
                check_emit_stream(T, ids)
        T.sample('dump-streams', {'dump_docs': list(ids)})
    elif kind == 'streams':
        _, k, np_ = job
        i = 0
        ids = ()
        for n in (1, 2, 3):
            for ids in itertools.product(range(len(DOCS)), repeat=n):
                i += 1
                if i % np_ == k:
                    check_stream(T, ids)
        T.sample('streams', {'docs': list(ids)})
    else:
        raise ValueError(job)


def replay(sub, case, T):
    if sub == 'dump-streams':
        if 'dump_docs' in case:
            check_dump_stream(T, tuple(case['dump_docs']), case['mode'])
        else:
            check_emit_stream(T, tuple(case.get('event_docs') or case.get('node_docs')))
        return
    if sub == 'streams':
        check_stream(T, tuple(case['docs']))
        return
    names = [n for n, _ in pool()]
    hist = case['history']
    base = baseline_for([names.index(hist[-1])])
    code = ('import json, hashlib\nfrom vf.props import c11\nP = dict(c11.pool())\ns0 = c11.snap_digest(c11.global_snapshot())\n'
            'for n in %r:\n    r = c11.run(P[n])\nprint(json.dumps({"r": r[:600], "d": hashlib.sha1(r.encode("utf-8", "backslashreplace")).hexdigest(), "g": c11.snap_digest(c11.global_snapshot()) == s0}))\n' % (hist,))
    d = json.loads(fresh(code).strip().splitlines()[-1])
    if d['d'] != base[hist[-1]]['digest']:
        T.violation(sub, 'result-depends-on-history', case, detail='after %r: %s; alone: %s' % (hist[:-1], d['r'][:300], base[hist[-1]]['text'][:300]))
    if not d['g']:
        T.violation(sub, 'global-state-changed', case, detail='library-global state differs after %r' % (hist,))


def snippet(sub, case):
    return '# ./check C11 --replay <this file>   case=%r' % (case,)


def selftest():
    P = pool()
    assert len(set(n for n, _ in P)) == len(P) and len(P) > 60
    a = snap_digest(global_snapshot())
    yaml.SafeLoader.yaml_constructors['!tmp'] = None
    try:
        assert snap_digest(global_snapshot()) != a
    finally:
        del yaml.SafeLoader.yaml_constructors['!tmp']
    assert snap_digest(global_snapshot()) == a
