"""C16 - dumping is deterministic and stable (E1 x child processes with explicit hash seeds)."""
import datetime, hashlib, itertools, json, os, subprocess, sys
import yaml
from .. import universe as U
from ..oracles import graph

ID = 'C16'
LEVEL = 'exploration'
RULE = ('(a) every subset of <=4 keys from five pools of mutually comparable keys (str, int, float, bool+int, date) x every '
        'permutation of insertion order, as dict and as set, nested and at root, block/flow/canonical: with sort_keys on '
        'all permutations must dump to one text; with sort_keys off the composed key order must be the insertion order, '
        'and loading returns document order (both loaders; generated documents in block and flow form); (b) a fixed case '
        'list (sets/dicts of str, bytes, int, float, date keys, nested and shared) is dumped in child interpreters started '
        'with PYTHONHASHSEED = 0..k and every per-case digest must coincide across seeds and with the parent; '
        '(c) fixed point dump(load(dump(x))) == dump(x) for every value of the C02 universe (strings <=L over 41 symbols at '
        'root and in containers, look-alikes, leaves, container shapes, sharing/recursion) x every option set within 1 '
        'deviation x both back-ends; (d) anchor names: the text of every document of dump_all equals its stand-alone dump, '
        'also after unrelated dumps in the same process. non-trivial = >=2 keys, or a value that needs quoting / anchors')
ASSUMPTIONS = ['fixed point: a *set* whose members are not mutually comparable (str/int/None/bytes mixed) is outside the universe - it is written in '
               'set iteration order, which Python does not preserve across a rebuild; dicts with such keys are inside (insertion order is preserved)',
               'hash seeds are explicit (0..k) so a failure names the seed that reproduces it; the quantifier over "process" is covered by the child interpreters',
               'keys within one pool are mutually comparable as the statement requires; mixed unorderable key sets are out of scope']

DUMPERS = (('py', yaml.SafeDumper, yaml.SafeLoader), ('c', yaml.CSafeDumper, yaml.CSafeLoader))
D = datetime
POOLS = {
    'str': ['a', 'b', 'c', 'B', '', 'yes', '10', '9', 'é', 'a b'],
    'int': [0, 1, 2, 10, -1, 255, 10 ** 20],
    'float': [0.5, -1.5, 1e10, 2.0, float('inf')],
    'boolint': [True, False, 2, 3, -1],
    'date': [D.date(2001, 1, 1), D.date(1999, 12, 31), D.date(2001, 1, 2), D.date(1, 1, 1)],
    'bytes': [b'a', b'b', b'', b'\xff'],
}
SHAPE_OPTS = [{}, {'default_flow_style': True}, {'canonical': True}, {'default_style': '"'}, {'indent': 4, 'width': 10}]


def bounds(tier, seed):
    q = tier == 'quick'
    return {'keys_per_container': 4, 'hash_seeds': list(range(8 if q else 64)), 'fixed_point_string_len': 2 if q else 3, 'option_deviations': 1}


# ---------------------------------------------------------------- (a) insertion order
def check_perms(T, pool, keys):
    rep = yaml.representer.SafeRepresenter()
    for dn, Dm, Ld in DUMPERS:
        for kind in ('dict', 'set', 'nested', 'after-unsortable'):
            for o in (SHAPE_OPTS if len(keys) <= 3 else SHAPE_OPTS[:2]):
                texts = {}
                for perm in itertools.permutations(keys):
                    T.evaluations += 1
                    case = {'pool': pool, 'keys': list(perm), 'kind': kind, 'options': o, 'dumper': dn}
                    if T.trace: T.begin(case)
                    v = mk(kind, perm)
                    try:
                        t_on = yaml.dump(v, Dumper=Dm, sort_keys=True, **o)
                        t_off = yaml.dump(mk(kind, perm), Dumper=Dm, sort_keys=False, **o)
                    except Exception as e:
                        T.violation('insertion-order', 'dump-exception:' + type(e).__name__, case, detail=str(e)[:200])
                        continue
                    texts.setdefault(t_on, perm)
                    if len(texts) > 1:
                        a, b = list(texts.items())[:2]
                        T.violation('insertion-order', 'sorted-text-depends-on-insertion-order', case,
                                    detail='sort_keys=True: insertion order %r gives %r but %r gives %r' % (list(a[1]), a[0], list(b[1]), b[0]))
                        break
                    if kind in ('set', 'after-unsortable'):
                        continue      # a set has no insertion order to preserve; the mixed document is for the sorted side only
                    # sort_keys off: keys appear in insertion order (composed node order), and load gives document order
                    try:
                        node = yaml.compose(t_off, Loader=yaml.SafeLoader)
                        m = node if kind == 'dict' else node.value[0].value[0][1]
                        got = [k.value for k, _ in m.value]
                        want = [rep.represent_data(k).value for k in perm]
                        if got != want:
                            T.violation('insertion-order', 'unsorted-dump-reorders-keys', case, detail='sort_keys=False wrote %r: key order %r, inserted %r' % (t_off, got, want))
                        back = yaml.load(t_off, Loader=Ld)
                        bm = back if kind == 'dict' else back[0]['m']
                        if list(bm.keys()) != list(perm) and not any(isinstance(k, float) and k != k for k in perm):
                            T.violation('insertion-order', 'load-reorders-keys', case, detail='loaded key order %r from %r, document order %r' % (list(bm.keys()), t_off, list(perm)))
                    except Exception as e:
                        T.violation('insertion-order', 'reload-exception:' + type(e).__name__, case, detail='%r: %s' % (t_off, str(e)[:200]))
    T.nontrivial += 1 if len(keys) >= 2 else 0


def mk(kind, perm):
    """containers built by inserting in the order of perm; the value stored under a key is a function of the key alone"""
    val = {k: j for j, k in enumerate(sorted(perm, key=repr))}
    if kind == 'dict':
        return {k: val[k] for k in perm}
    if kind == 'set':
        s = set()
        for k in perm:
            s.add(k)
        return s
    if kind == 'after-unsortable':
        # a mapping whose keys cannot be ordered comes first in the same document; the containers after it are still sortable
        return [{1: 'int key', 'a': 'str key'}, {k: val[k] for k in perm}, mk('set', perm), {None: 0, 'z': 1}, {k: val[k] for k in perm}]
    return [{'m': {k: [val[k]] for k in perm}, 's': mk('set', perm)}]


def check_load_order(T, keys):
    """load side alone: generated documents, keys in the given order, block and flow form"""
    words = {'a': 'a', 'b': 'b', 'c': 'c', 'x y': '"x y"', '1': '1', 'false': 'false', '~': '~', '2001-01-01': '2001-01-01', 'z': "'z'"}
    for perm in itertools.permutations(keys):
        for form in ('block', 'flow', 'complex'):
            if form == 'block':
                text = ''.join('%s: %d\n' % (words[k], i) for i, k in enumerate(perm))
            elif form == 'flow':
                text = '{' + ', '.join('%s: %d' % (words[k], i) for i, k in enumerate(perm)) + '}\n'
            else:
                text = ''.join('? %s\n: %d\n' % (words[k], i) for i, k in enumerate(perm))
            for ln, Ld in (('py', yaml.SafeLoader), ('c', yaml.CSafeLoader)):
                T.evaluations += 1
                case = {'doc': text, 'loader': ln}
                try:
                    back = yaml.load(text, Loader=Ld)
                    ref = [yaml.load(words[k], Loader=yaml.SafeLoader) for k in perm]
                except Exception as e:
                    T.violation('load-order', 'exception:' + type(e).__name__, case, detail=str(e)[:200])
                    continue
                if [graph.canon(k) for k in back.keys()] != [graph.canon(k) for k in ref] or list(back.values()) != list(range(len(perm))):
                    T.violation('load-order', 'load-reorders-keys', case, detail='loaded %r from %r' % (list(back.items()), text))
    T.nontrivial += 1


# ---------------------------------------------------------------- (b) hash seeds
def seed_cases():
    """deterministic list of (name, factory); every container is built by *inserting* in a fixed order"""
    out = []
    strs = ['a', 'b', 'c', 'd', 'e', 'yes', 'B', 'é', '', 'a b', 'k1', 'k2', 'k3', 'zz', 'Z', '10', '9', '~']
    for n in (2, 3, 5, 8, 18):
        out.append(('set-str-%d' % n, lambda n=n: set(strs[:n])))
        out.append(('dict-str-%d' % n, lambda n=n: {k: i for i, k in enumerate(strs[:n])}))
        out.append(('set-in-list-%d' % n, lambda n=n: [set(strs[:n]), {'k': set(strs[1:n])}]))
        out.append(('frozen-order-%d' % n, lambda n=n: {k: {j for j in strs[:n] if j != k} for k in strs[:min(n, 4)]}))
        out.append(('after-unsortable-%d' % n, lambda n=n: [{1: 0, 'a': 1}, set(strs[:n]), {k: 1 for k in strs[:n]}]))
    out.append(('set-bytes', lambda: {b'a', b'b', b'c', b'', b'\xff', b'ab'}))
    out.append(('set-int', lambda: {5, 3, 1, 10 ** 20, -7, 0}))
    out.append(('set-float', lambda: {0.5, -1.5, 1e10, 2.0}))
    out.append(('set-date', lambda: {D.date(2001, 1, 1), D.date(1999, 12, 31), D.date(2001, 1, 2)}))
    out.append(('dict-bytes', lambda: {b'k' + bytes([i]): i for i in (5, 1, 3, 2)}))

    def shared():
        s = set(strs[:6])
        return {'a': s, 'b': [s, s], 'c': {'d': s}}
    out.append(('shared-set', shared))

    def shared2():
        d1 = {k: None for k in strs[:5]}
        return [d1, {'x': d1}, set(strs[3:9]), d1]
    out.append(('shared-dict', shared2))
    return out


SEED_OPTS = [{}, {'default_flow_style': True}, {'canonical': True}, {'default_style': "'"}, {'width': 5}]


def seed_digests():
    """runs in the child (and in the parent for reference): digest per (case, options, dumper)"""
    res = {}
    for name, mkv in seed_cases():
        for oi, o in enumerate(SEED_OPTS):
            for dn, Dm, _ in DUMPERS:
                try:
                    t = yaml.dump(mkv(), Dumper=Dm, sort_keys=True, **o)
                except Exception as e:
                    t = 'EXC:%s:%s' % (type(e).__name__, e)
                res['%s|%d|%s' % (name, oi, dn)] = hashlib.sha256(t.encode('utf-8', 'surrogatepass')).hexdigest()[:20]
    return res


def run_seed_child(seed):
    env = dict(os.environ)
    env['PYTHONHASHSEED'] = str(seed)
    code = 'import json; from vf.props import c16; print(json.dumps(c16.seed_digests()))'
    p = subprocess.run([sys.executable, '-c', code], env=env, capture_output=True, text=True, timeout=300)
    if p.returncode != 0:
        raise RuntimeError('child with PYTHONHASHSEED=%d failed: %s' % (seed, p.stderr[-800:]))
    return json.loads(p.stdout.strip().splitlines()[-1])


# ---------------------------------------------------------------- (c) fixed point
def _fresh(v):
    """an equal value that is a different object wherever the type allows (two equal dates in a document are two nodes;
    whether the loader hands back one object or two must not show in the next dump)"""
    if isinstance(v, (D.date, D.datetime)):
        return v.replace()
    if isinstance(v, bytes):
        return bytes(bytearray(v))
    if isinstance(v, str):
        return ''.join(list(v))
    if isinstance(v, float):
        return float.fromhex(v.hex())
    if type(v) is int:
        return int(str(v))
    return v


def fixed_point(T, sub, name, mkv, opts, extra=None):
    for dn, Dm, Ld in DUMPERS:
        T.evaluations += 1
        case = {'value': name, 'options': opts, 'dumper': dn}
        if extra:
            case.update(extra)
        if T.trace: T.begin(case)
        try:
            t1 = yaml.dump(mkv(), Dumper=Dm, **opts)
            y = yaml.load(t1, Loader=Ld)
            t2 = yaml.dump(y, Dumper=Dm, **opts)
        except Exception as e:
            T.violation(sub, 'exception:' + type(e).__name__, case, detail=str(e).replace('\n', ' ')[:200])
            continue
        if t1 != t2:
            T.violation(sub, 'not-a-fixed-point', case, detail='%s: dump(x)=%r but dump(load(dump(x)))=%r' % (dn, _short(t1), _short(t2)))


def _short(x, n=200):
    x = x if isinstance(x, str) else repr(x)
    return x if len(x) <= n else x[:n // 2] + ' ... ' + x[-n // 2:]


def fp_string(T, s, opts_root, opts_comp):
    T.nontrivial += 1 if not (s.isascii() and s.isalpha()) else 0
    for o in opts_root:
        fixed_point(T, 'fixed-point', 'str', lambda: s, o, {'string': s, 'place': 'root'})
    for o in opts_comp:
        fixed_point(T, 'fixed-point', 'str', lambda: dict(U.place_string(s))['composite'], o, {'string': s, 'place': 'composite'})


# ---------------------------------------------------------------- (d) anchor names
def anchor_docs():
    def a():
        x = [1]
        return [x, x]

    def b():
        d = {'k': 'v'}
        return {'p': d, 'q': [d, d]}

    def c():
        r = []
        r.append(r)
        return [r, {'r': r}]

    def d():
        x = [1]; y = {'a': x}
        return [x, y, x, y, [y]]

    def e():
        s = {1, 2}
        return [s, s]

    def plain():
        return {'a': [1, 2]}
    return [('shared-list', a), ('shared-dict', b), ('recursive', c), ('two-anchors', d), ('shared-set', e), ('plain', plain)]


def check_anchors(T, ids, opts):
    docs = anchor_docs()
    for dn, Dm, Ld in DUMPERS:
        T.evaluations += 1
        case = {'docs': list(ids), 'options': opts, 'dumper': dn}
        o = dict(opts)
        o['explicit_start'] = True
        try:
            alone = [yaml.dump(docs[i][1](), Dumper=Dm, **o) for i in ids]
            together = yaml.dump_all([docs[i][1]() for i in ids], Dumper=Dm, **o)
            again = [yaml.dump(docs[i][1](), Dumper=Dm, **o) for i in ids]       # after unrelated calls
        except Exception as e:
            T.violation('anchors', 'exception:' + type(e).__name__, case, detail=str(e)[:200])
            continue
        if ''.join(alone) != together:
            T.violation('anchors', 'document-text-depends-on-position', case, detail='dump_all gives %r, stand-alone dumps give %r' % (_short(together), _short(''.join(alone))))
        if alone != again:
            T.violation('anchors', 'document-text-depends-on-history', case, detail='second dump differs: %r vs %r' % (_short(''.join(again)), _short(''.join(alone))))
        T.outcome(hashlib.sha1(together.encode()).hexdigest()[:8])
    T.nontrivial += 1


# ---------------------------------------------------------------- plan
def plan(tier, seed):
    q = tier == 'quick'
    jobs = [('seed', s) for s in range(8 if q else 64)]
    for pool in POOLS:
        if pool == 'bytes':
            continue
        for k in range(12):
            jobs.append(('perm', pool, k, 12))
    jobs.append(('loadorder',))
    nS = len(U.STR_SIGMA)
    jobs += [('fp-s', 2, a) for a in range(nS)]
    jobs.append(('fp-s', 1, 0))
    if not q:
        jobs += [('fp-s3', a, b) for a in range(nS) for b in range(0, nS, 1)]
    else:
        jobs += [('fp-s3slice', a, seed % 16) for a in range(nS)]
    jobs += [('fp-look', k, 16) for k in range(16)]
    jobs += [('fp-cont', k, 16) for k in range(16)]
    jobs += [('fp-fold', 4 if q else 6, k, 32) for k in range(32)]
    jobs.append(('anchors',))
    return jobs


def run_job(job, T):
    kind = job[0]
    if kind == 'seed':
        T.extra = {'seed': job[1], 'digests': run_seed_child(job[1])}
        T.evaluations += len(T.extra['digests'])
        T.sample('hash-seed', {'PYTHONHASHSEED': job[1], 'cases': len(T.extra['digests'])})
    elif kind == 'perm':
        _, pool, k, np_ = job
        keys = POOLS[pool]
        i = 0
        for n in range(1, 5):
            for comb in itertools.combinations(range(len(keys)), n):
                i += 1
                if i % np_ != k:
                    continue
                check_perms(T, pool, [keys[i] for i in comb])
        T.sample('insertion-order', {'pool': pool, 'keys': [repr(keys[i]) for i in comb]})
    elif kind == 'loadorder':
        ks = ['a', 'b', 'c', 'x y', '1', 'false', '~', '2001-01-01', 'z']
        for n in range(1, 5):
            for comb in itertools.combinations(ks, n):
                check_load_order(T, comb)
        T.sample('load-order', {'keys': list(comb)})
    elif kind == 'fp-s':
        _, L, a = job
        opts = list(U.option_sets(1))
        if L == 1:
            for s in [''] + U.STR_SIGMA:
                fp_string(T, s, opts, opts)
        else:
            for b in U.STR_SIGMA:
                fp_string(T, U.STR_SIGMA[a] + b, opts, opts[:12])
        T.sample('fixed-point', {'string': s if L == 1 else U.STR_SIGMA[a] + b})
    elif kind in ('fp-s3', 'fp-s3slice'):
        a = U.STR_SIGMA[job[1]]
        opts = [{}] + [{'default_style': st} for st in ('"', "'", '|', '>')] + [{'allow_unicode': True}, {'width': 3}, {'canonical': True}]
        i = 0
        for b in (U.STR_SIGMA if kind == 'fp-s3slice' else [U.STR_SIGMA[job[2]]]):
            for c in U.STR_SIGMA:
                i += 1
                if kind == 'fp-s3slice' and i % 16 != job[2]:
                    continue
                fp_string(T, a + b + c, opts, opts[:3])
        T.sample('fixed-point', {'string': a + b + c})
    elif kind == 'fp-look':
        opts = list(U.option_sets(1))
        for i, s in enumerate(U.lookalikes()):
            if i % job[2] == job[1]:
                fp_string(T, s, opts, opts[:6])
        T.sample('fixed-point', {'string': s})
    elif kind == 'fp-cont':
        opts = list(U.option_sets(1))
        if job[1] == 0:
            # a str / bytes / number is written out wherever it occurs: whether two equal occurrences are one object or
            # two (interning, constant folding, caches - all process-dependent) must not show in the text
            for i, v in enumerate(U.LEAVES):
                if type(v) not in (str, bytes, int, float, bool, type(None)):
                    continue
                for dn, Dm, _ in DUMPERS:
                    for o in ({}, {'default_flow_style': True}, {'canonical': True}):
                        T.evaluations += 1
                        one = yaml.dump([v, {'k': v}, v], Dumper=Dm, **o)
                        two = yaml.dump([_fresh(v), {'k': _fresh(v)}, _fresh(v)], Dumper=Dm, **o)
                        if one != two:
                            T.violation('fixed-point', 'text-depends-on-object-identity', {'container': 'leafnest:%d' % i, 'value': 'leafnest:%d' % i, 'options': o, 'dumper': dn},
                                        detail='%s: the same value occurring three times is written %r when it is one object and %r when the occurrences are equal but distinct objects' % (dn, _short(one), _short(two)))
        items = [c for c in U.containers() if c[0] != 'set-keyable'] + [('leaf:%d' % i, (lambda v=v: v)) for i, v in enumerate(U.LEAVES)] + \
                [('leafnest:%d' % i, (lambda v=v: [v, {'k': v}])) for i, v in enumerate(U.LEAVES)] + \
                [('leaftwice:%d' % i, (lambda v=v: [_fresh(v), {'k': _fresh(v)}, _fresh(v)])) for i, v in enumerate(U.LEAVES)]
        for i, (name, mkv) in enumerate(items):
            if i % job[2] != job[1]:
                continue
            T.nontrivial += 1
            for o in opts:
                fixed_point(T, 'fixed-point', name, mkv, o, {'container': name})
        T.sample('fixed-point', {'container': name})
    elif kind == 'fp-fold':
        _, n, k, np_ = job
        opts = [{'default_style': st, 'width': w} for st in (None, '>', '"', "'") for w in (3, 5, 10)] + [{'default_style': '|'}, {'default_style': '>'}]
        for i, s in enumerate(U.fold_words(n)):
            if i % np_ != k:
                continue
            T.nontrivial += 1
            for o in opts:
                fixed_point(T, 'fixed-point', 'str', (lambda s=s: s), {kk: v for kk, v in o.items() if v is not None}, {'string': s, 'place': 'root'})
        T.sample('fixed-point', {'string': s})
    elif kind == 'anchors':
        n = len(anchor_docs())
        for L in (1, 2, 3):
            for ids in itertools.product(range(n), repeat=L):
                for o in ({}, {'default_flow_style': True}, {'canonical': True}):
                    check_anchors(T, ids, o)
        # the same object handed over again (changed or not) and short-lived temporaries: each document's text is what a
        # stand-alone dump of the value gives at that moment
        for dn, Dm, Ld in DUMPERS:
            for o in ({}, {'default_flow_style': True}):
                T.evaluations += 1
                expected = []

                def feed():
                    x = [1, {'k': 'v'}]
                    shared = [x, x]
                    for step in range(4):
                        for v in (x, shared, [step, [step]], {'t': [step]}):
                            expected.append(yaml.dump(v, Dumper=Dm, explicit_start=True, **o))
                            yield v
                        x.append(step)
                try:
                    text = yaml.dump_all(feed(), Dumper=Dm, explicit_start=True, **o)
                except Exception as e:
                    T.violation('anchors', 'exception:' + type(e).__name__, {'generated': True, 'options': o, 'dumper': dn}, detail=str(e)[:200])
                    continue
                if text != ''.join(expected):
                    T.violation('anchors', 'document-text-depends-on-history', {'generated': True, 'options': o, 'dumper': dn},
                                detail='dump_all of a generator gives %r, the values dumped one by one give %r' % (_short(text), _short(''.join(expected))))
        T.sample('anchors', {'docs': list(ids)})
    else:
        raise ValueError(job)


def finalize(agg, tier, seed):
    """cross-job oracle of (b): digests of every child must coincide (and with this process)"""
    ref = seed_digests()
    extra = {'hash_seeds_run': [], 'hash_seed_cases': len(ref)}
    from .. import engine
    for idx, ex in sorted(agg.extras, key=lambda p: p[0]):
        if 'digests' not in ex:
            continue
        extra['hash_seeds_run'].append(ex['seed'])
        for k, v in ref.items():
            if ex['digests'].get(k) != v:
                agg.violation_total += 1
                agg.sig_count['hash-seed|text-depends-on-hash-seed'] += 1
                if len(agg.violations) < 30:
                    name, oi, dn = k.split('|')
                    agg.violations.append({'sub': 'hash-seed', 'kind': 'text-depends-on-hash-seed',
                                           'case': {'seed_case': name, 'options_index': int(oi), 'dumper': dn, 'PYTHONHASHSEED': ex['seed']},
                                           'detail': 'digest under PYTHONHASHSEED=%s differs from the reference process (PYTHONHASHSEED=%s)' % (ex['seed'], os.environ.get('PYTHONHASHSEED')),
                                           'expected': v, 'observed': ex['digests'].get(k)})
    agg.nontrivial += len(ref)
    return extra


def replay(sub, case, T):
    opts = dict(case.get('options') or {})
    if isinstance(opts.get('version'), list):
        opts['version'] = tuple(opts['version'])
    if sub == 'hash-seed':
        ref = seed_digests()
        got = run_seed_child(case['PYTHONHASHSEED'])
        for k in ref:
            if got.get(k) != ref[k]:
                T.violation(sub, 'text-depends-on-hash-seed', case, detail='case %s differs under PYTHONHASHSEED=%s' % (k, case['PYTHONHASHSEED']))
    elif sub == 'insertion-order':
        check_perms(T, case['pool'], case['keys'])
    elif sub == 'load-order':
        # re-run the whole (tiny) load-order sub-space
        run_job(('loadorder',), T)
    elif sub == 'anchors':
        if case.get('generated'):
            run_job(('anchors',), T)
        else:
            check_anchors(T, tuple(case['docs']), opts)
    else:
        if 'string' in case:
            s = case['string']
            mkv = (lambda: s) if case.get('place') == 'root' else (lambda: dict(U.place_string(s))['composite'])
            fixed_point(T, sub, 'str', mkv, opts, {'string': s, 'place': case.get('place')})
        else:
            items = dict(list(U.containers()) + [('leaf:%d' % i, (lambda v=v: v)) for i, v in enumerate(U.LEAVES)] +
                         [('leafnest:%d' % i, (lambda v=v: [v, {'k': v}])) for i, v in enumerate(U.LEAVES)] +
                         [('leaftwice:%d' % i, (lambda v=v: [_fresh(v), {'k': _fresh(v)}, _fresh(v)])) for i, v in enumerate(U.LEAVES)])
            fixed_point(T, sub, case['value'], items[case['value']], opts, {'container': case['value']})


def snippet(sub, case):
    return '# ./check C16 --replay <this file>  sub=%s case=%r' % (sub, case)


def selftest():
    graph.selftest()
    assert len(seed_cases()) >= 25 and len(seed_digests()) == len(seed_cases()) * len(SEED_OPTS) * 2
