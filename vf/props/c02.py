"""C02 - safe dump / safe load round trip (E1 x option deviations)."""
import itertools
import yaml
from .. import universe as U
from ..oracles import graph

ID = 'C02'
LEVEL = 'exploration'
RULE = ('every string <=L over a 41-symbol alphabet (breaks, BOM, NEL/LS/PS, controls, astral, all indicators), every type '
        'look-alike found by an independent YAML 1.1 recogniser, folding words (<=N pieces over 8 space/break pieces), '
        'every microsecond value of a datetime, simple-key threshold lengths (raw 127-129 / 1023-1025 and keys whose escaped form crosses 1024), every container shape <=4 nodes over a leaf pool, sharing/recursion patterns, all '
        'leaves; each dumped with every option set within the deviation bound (and the full style x width x indent x '
        'allow_unicode product for strings) by SafeDumper and CSafeDumper and loaded by SafeLoader and CSafeLoader '
        '(4 pairings), compared by type-strict graph bisimulation incl. sharing partition. non-trivial = the value is not a '
        'plain ASCII letter string / contains a character or structure that needs quoting, escaping, anchoring or tagging')
ASSUMPTIONS = ['lone surrogates are outside the universe (property says Unicode scalar values)',
               'datetime values: utcoffset compared as well as the instant']

DUMPERS = (('py', yaml.SafeDumper), ('c', yaml.CSafeDumper))
LOADERS = (('py', yaml.SafeLoader), ('c', yaml.CSafeLoader))
STR_PRODUCT = ('default_style', 'width', 'indent', 'allow_unicode')
# the option sets that matter for a string (1 deviation each), used where the full 1-deviation list is too costly
STR_OPTS = [{}] + [{'default_style': st} for st in ('"', "'", '|', '>')] + [{'width': 3}, {'width': 5}, {'allow_unicode': True},
            {'canonical': True}, {'default_flow_style': True}, {'indent': 1}, {'line_break': '\r\n'}, {'encoding': 'utf-16-le'}, {'explicit_end': True}]
STYLE_OPTS = STR_OPTS[:5]


def bounds(tier, seed):
    q = tier == 'quick'
    return {'string_len_full': 2 if q else 3, 'string_len_core20': 3 if q else 4, 'fold_pieces': 4 if q else 6,
            'option_deviations': 1 if q else 2, 'string_option_product': 'style x width x indent x allow_unicode (480 sets)',
            'quick_seed_slice': 'length-3 strings over the full alphabet whose index % 16 == seed % 16' if q else None}


def roundtrip(T, sub, name, value, opts, case_extra=None, ordered=None):
    """dump with both dumpers, load each output with both loaders"""
    sort_keys = opts.get('sort_keys', True)
    want = graph.canon(value, ordered=not sort_keys)
    for dn, Dm in DUMPERS:
        T.evaluations += 1
        case = {'value': name, 'options': opts, 'dumper': dn}
        if case_extra:
            case.update(case_extra)
        try:
            out = yaml.dump(value, Dumper=Dm, **opts)
        except Exception as e:
            T.violation(sub, 'dump-exception:' + type(e).__name__, case, detail='%s.dump raised %s(%s)' % (dn, type(e).__name__, str(e)[:200]))
            continue
        for ln, Ld in LOADERS:
            try:
                back = yaml.load(out, Loader=Ld)
            except Exception as e:
                T.violation(sub, 'load-rejects:' + type(e).__name__, case, detail='%s wrote %r; %s loader raised %s(%s)'
                            % (dn, _short(out), ln, type(e).__name__, str(e).replace('\n', ' ')[:200]))
                continue
            got = graph.canon(back, ordered=not sort_keys)
            if got != want:
                T.violation(sub, 'value-differs', case, detail='%s wrote %r; %s loader read %s, expected %s'
                            % (dn, _short(out), ln, _short(repr(back)), _short(repr(value))))


def _short(x, n=300):
    x = x if isinstance(x, str) else repr(x)
    return x if len(x) <= n else x[:n // 2] + ' ... ' + x[-n // 2:]


def nontrivial_str(s):
    return not (s.isascii() and s.isalpha())


_OPT1 = None
_STRPROD = None


def opt_sets(dev):
    return list(U.option_sets(dev))


def str_product(full=False):
    """style x width x indent x allow_unicode; quick uses width {None,3,10} x indent {None,1,9}"""
    global _STRPROD
    if _STRPROD is None:
        allp = list(U.option_product(STR_PRODUCT))
        red = [o for o in allp if o.get('width') in (None, 3, 10) and o.get('indent') in (None, 1, 9)]
        _STRPROD = (allp, red)
    return _STRPROD[0 if full else 1]


def check_string(T, sub, s, root_opts, comp_opts=None):
    T.nontrivial += 1 if nontrivial_str(s) else 0
    (_, root), (_, comp) = U.place_string(s)
    for o in root_opts:
        if T.trace: T.begin({'string': s, 'place': 'root', 'options': o})
        roundtrip(T, sub, 'str', root, o, {'string': s, 'place': 'root'})
    for o in (root_opts if comp_opts is None else comp_opts):
        if T.trace: T.begin({'string': s, 'place': 'composite', 'options': o})
        roundtrip(T, sub, 'str', comp, o, {'string': s, 'place': 'composite'})


def plan(tier, seed):
    q = tier == 'quick'
    jobs = []
    n = len(U.STR_SIGMA)
    # S1: full alphabet
    L = 2 if q else 3
    for a in range(n):
        if L <= 2:
            jobs.append(('s1', L, a, 'prod'))
        else:
            jobs += [('s1', L, a, 'prod', b) for b in range(n)]       # one job per two-symbol prefix
    jobs.append(('s1short', 0, 'prod', 0))
    jobs += [('s1short', 1, 'prod', k) for k in range(8)]
    if q:
        jobs += [('s1slice', 3, a, seed % 16) for a in range(n)]
    # S1 core alphabet, one more symbol, 1-deviation option sets
    Lc = 3 if q else 4
    for a in range(len(U.STR_CORE)):
        for b in range(len(U.STR_CORE)):
            jobs.append(('s1core', Lc, a, b))
    jobs += [('boundary', k, 6) for k in range(6)]
    jobs += [('look', k, 16) for k in range(16)]
    jobs += [('fold', 4 if q else 6, k, 64) for k in range(64)]
    jobs += [('thr', k) for k in range(12)]
    jobs += [('esckey', k, 8) for k in range(8)]
    jobs += [('usec', k, 64) for k in range(64)]
    jobs += [('cont', k, 32, 1 if q else 2) for k in range(32)]
    jobs += [('leaves', k, 8, 1 if q else 2) for k in range(8)]
    return jobs


def run_job(job, T):
    kind = job[0]
    if kind == 's1':
        _, L, a, mode = job[:4]
        full = L > 2
        opts = str_product(full) + opt_sets(1)
        second = [U.STR_SIGMA[job[4]]] if len(job) > 4 else None
        for tail in (itertools.product(U.STR_SIGMA, repeat=L - 1) if second is None else itertools.product(second, *([U.STR_SIGMA] * (L - 2)))):
            s = U.STR_SIGMA[a] + ''.join(tail)
            if L <= 2:
                check_string(T, 'strings', s, opts, opt_sets(1))
            else:
                check_string(T, 'strings', s, opt_sets(1) + str_product(True)[::7], STR_OPTS)
        T.sample('strings', {'string': s})
    elif kind == 's1short':
        opts = str_product(True) + opt_sets(2)
        for s in ([''] if job[1] == 0 else U.STR_SIGMA[job[3]::8]):
            check_string(T, 'strings', s, opts, opt_sets(1) + str_product(False))
        T.sample('strings', {'string': s})
    elif kind == 's1slice':
        _, L, a, sl = job
        opts = opt_sets(0) + [{'default_style': st} for st in ('"', "'", '|', '>')] + [{'allow_unicode': True}, {'width': 3}, {'canonical': True}]
        i = 0
        for tail in itertools.product(U.STR_SIGMA, repeat=L - 1):
            i += 1
            if i % 16 != sl:
                continue
            s = U.STR_SIGMA[a] + ''.join(tail)
            check_string(T, 'strings-len3-slice', s, opts, STYLE_OPTS[:3])
        T.sample('strings-len3-slice', {'string': s})
    elif kind == 's1core':
        _, L, a, b = job
        for tail in itertools.product(U.STR_CORE, repeat=L - 2):
            s = U.STR_CORE[a] + U.STR_CORE[b] + ''.join(tail)
            check_string(T, 'strings-core', s, STR_OPTS, STYLE_OPTS[:2])
        T.sample('strings-core', {'string': s})
    elif kind == 'boundary':
        # range-boundary characters alone and next to a letter, a space, a break and each other
        opts = opt_sets(1) + str_product(False)[::3]
        s = None
        for i, ch in enumerate(U.BOUNDARY):
            if i % job[2] != job[1]:
                continue
            for s in [ch, 'a' + ch, ch + 'a', ch + ' ', ' ' + ch, ch + '\n', 'a ' + ch + ' b', ch * 3] + [ch + o for o in U.BOUNDARY[::5]]:
                check_string(T, 'boundary-chars', s, opts, STR_OPTS)
        T.sample('boundary-chars', {'string': s})
    elif kind == 'look':
        opts = opt_sets(1)
        for i, s in enumerate(U.lookalikes()):
            if i % job[2] != job[1]:
                continue
            check_string(T, 'lookalikes', s, opts)
            T.sample('lookalikes', {'string': s})
    elif kind == 'fold':
        _, n, k, np_ = job
        ws = (3, 5, 10, 20) if n > 4 else (3, 5, 10)
        opts = [o for o in U.option_product(('default_style', 'width')) if o.get('width') in ws and o.get('default_style') != '|'] + \
               [{'default_style': '>'}, {'default_style': '|'}, {'default_style': '>', 'indent': 1}, {'default_style': '>', 'indent': 9, 'width': 10},
                {'default_style': '>', 'line_break': '\r\n', 'width': 5}, {'default_style': '>', 'canonical': True}]
        for i, s in enumerate(U.fold_words(n)):
            if i % np_ != k:
                continue
            T.nontrivial += 1
            for o in opts:
                if T.trace: T.begin({'string': s, 'options': o})
                roundtrip(T, 'folding', 'str', s, o, {'string': s, 'place': 'root'})
                if o.get('default_style') == '>' and (n > 4 or o.get('width') in (None, 5)):
                    roundtrip(T, 'folding', 'str', {'k': [s]}, o, {'string': s, 'place': 'nested'})
        T.sample('folding', {'string': s})
    elif kind == 'thr':
        s = U.thresholds()[job[1]]
        T.nontrivial += 1
        for o in opt_sets(1):
            roundtrip(T, 'thresholds', 'str', s, o, {'string': s, 'place': 'root'})
            roundtrip(T, 'thresholds', 'str', {s: s}, o, {'string': s, 'place': 'key'})
            roundtrip(T, 'thresholds', 'str', [{s: [s]}, {s}], o, {'string': s, 'place': 'nested-key'})
        T.sample('thresholds', {'len': len(s)})
    elif kind == 'usec':
        # every microsecond value of a datetime (10^6, in 64 blocks), naive and with a UTC offset, as items of one list
        import datetime as D
        _, k, nb = job
        per = 1000000 // nb
        tz = D.timezone(D.timedelta(hours=-5))
        vals = [D.datetime(2001, 12, 14, 21, 59, 43, u, tzinfo=(tz if u % 2 else None)) for u in range(k * per, (k + 1) * per)]
        T.nontrivial += len(vals)
        outs = {}
        for dn, Dm in DUMPERS:
            T.evaluations += len(vals)
            try:
                outs.setdefault(yaml.dump(vals, Dumper=Dm), []).append(dn)
            except Exception as e:
                T.violation('microseconds', 'dump-exception:' + type(e).__name__, {'block': k, 'dumper': dn}, detail='%s.dump raised %s(%s)' % (dn, type(e).__name__, str(e)[:200]))
        for out, dns in outs.items():
            for ln, Ld in LOADERS:
                try:
                    back = yaml.load(out, Loader=Ld)
                except Exception as e:
                    T.violation('microseconds', 'load-rejects:' + type(e).__name__, {'block': k, 'dumper': dns[0]}, detail='%s loader raised %s(%s)' % (ln, type(e).__name__, str(e)[:200]))
                    continue
                if len(back) != len(vals):
                    T.violation('microseconds', 'value-differs', {'block': k, 'dumper': dns[0]}, detail='%d values written, %d read' % (len(vals), len(back)))
                for v, b in zip(vals, back):
                    if type(b) is not D.datetime or b != v or b.utcoffset() != v.utcoffset():
                        T.violation('microseconds', 'value-differs', {'block': k, 'microsecond': v.microsecond, 'dumper': dns[0]},
                                    detail='%s wrote %r in a list; %s loader read %r' % ('/'.join(dns), v, ln, b))
        T.sample('microseconds', {'block': k, 'of': nb})
    elif kind == 'esckey':
        s = None
        for i, s in enumerate(U.escaped_keys()):
            if i % job[2] != job[1]:
                continue
            T.nontrivial += 1
            for o in opt_sets(1):
                roundtrip(T, 'thresholds', 'str', {s: s}, o, {'string': s, 'place': 'key'})
                roundtrip(T, 'thresholds', 'str', [{s: [s]}, {s}], o, {'string': s, 'place': 'nested-key'})
        T.sample('thresholds', {'len': len(s), 'written': len(s.encode('unicode_escape'))})
    elif kind == 'cont':
        _, k, np_, dev = job
        opts = opt_sets(dev)
        for i, (name, mk) in enumerate(U.containers()):
            if i % np_ != k:
                continue
            T.nontrivial += 1
            for o in opts:
                if T.trace: T.begin({'container': name, 'options': o})
                roundtrip(T, 'containers', name, mk(), o, {'container': name})
            T.sample('containers', {'container': name})
    elif kind == 'leaves':
        _, k, np_, dev = job
        opts = opt_sets(dev)
        for i, v in enumerate(U.LEAVES):
            if i % np_ != k:
                continue
            T.nontrivial += 1
            for o in opts:
                roundtrip(T, 'leaves', repr(v), v, o, {'leaf': i})
                roundtrip(T, 'leaves', repr(v), [v, {'k': v}], o, {'leaf': i, 'place': 'nested'})
            T.sample('leaves', {'leaf': repr(v)})
    else:
        raise ValueError(job)


def replay(sub, case, T):
    if sub == 'microseconds':
        return run_job(('usec', case['block'], 64), T)
    opts = dict(case.get('options') or {})
    if 'version' in opts and isinstance(opts['version'], list):
        opts['version'] = tuple(opts['version'])
    if 'string' in case:
        s = case['string']
        place = case.get('place', 'root')
        if place == 'root':
            v = s
        elif place == 'composite':
            v = dict(U.place_string(s))['composite']
        elif place == 'nested':
            v = {'k': [s]}
        elif place == 'key':
            v = {s: s}
        else:
            v = [{s: [s]}, {s}]
        roundtrip(T, sub, 'str', v, opts, {'string': s, 'place': place})
    elif 'container' in case:
        mk = dict(U.containers())[case['container']]
        roundtrip(T, sub, case['container'], mk(), opts, {'container': case['container']})
    elif 'leaf' in case:
        v = U.LEAVES[case['leaf']]
        roundtrip(T, sub, repr(v), v if case.get('place') != 'nested' else [v, {'k': v}], opts, {'leaf': case['leaf']})


def snippet(sub, case):
    return 'import yaml\n# value: see case; options: %r\n' % (case.get('options'),)


def selftest():
    graph.selftest()
    assert len(str_product(True)) == 5 * 6 * 6 * 2 and len(str_product()) == 90 and len(opt_sets(1)) == 32
