"""C09 - tokens/events grammatical, positions true.
Part A (E1): real scanner+parser on every short text;  Part B (E3): explicit-state search of the real Parser
driven by a stub token source that is the environment (every token sequence up to a depth)."""
import os, itertools
import yaml
from yaml.tokens import *
from yaml.error import Mark
from yaml.parser import Parser, ParserError
from .. import gen
from ..oracles import grammar, linecol
from ..oracles.grammar import TOKEN_KIND, EVENT_KIND, TokenAcceptor, EventAcceptor
from . import c03

ID = 'C09'
LEVEL = 'model_checking'
RULE = ('Part A: every string <=L over the 29-symbol indicator alphabet, every small corpus file and its 1-edits '
        '(seed slice in quick), scanned and parsed by both back-ends; token/event sequences checked against pushdown '
        'acceptors of the documented grammars, every mark against range/monotonicity and (Python) an independent '
        'line/column counter and text-slice equality. Part B: breadth-first explicit-state search over the real '
        'yaml.parser.Parser fed by a stub token source, alphabet of 22 token shapes, all sequences up to the depth bound, '
        'states deduplicated on (control state after the last completed event, pending tokens, grammar-acceptor state). '
        'non-trivial = input with >=1 structural token beyond a single scalar, or a parser run producing >=1 event')
ASSUMPTIONS = ['LibYAML pipeline checked for range/monotonicity/grammar only (its line/column convention differs at line ends, as the property allows)',
               'E3 canonical state uses Parser.state/states/marks/tag_handles/yaml_version; if these attributes disappear the search falls back to stateless enumeration',
               'the system explored in part B is the implementation itself, so traces_validated_against_impl = parser executions']

SIGMA = c03.SIGMA


def bounds(tier, seed):
    q = tier == 'quick'
    return {'partA_string_len': 4 if q else 5, 'partA_corpus': 'files index%8==seed%8 with 1-edits at positions %4==seed%4 (quick) / all (thorough)',
            'partB_depth': 7 if q else 10, 'partB_alphabet': len(STUB_KINDS)}


# ------------------------------------------------------------------ part A
def _check_marks_seq(T, sub, case, who, items, kindmap, text, lc, exact):
    n = len(text)
    last = -1
    for it in items:
        sm, em = it.start_mark, it.end_mark
        if not (0 <= sm.index <= em.index <= n):
            T.violation(sub, 'mark-range', case, detail='%s %s start=%d end=%d len=%d' % (who, type(it).__name__, sm.index, em.index, n))
            return
        if sm.index < last:
            T.violation(sub, 'mark-backwards', case, detail='%s %s start=%d after %d' % (who, type(it).__name__, sm.index, last))
            return
        last = sm.index
        if exact == 'c':
            # LibYAML: same counting rule, except that at the end of the input it starts a fresh line (yaml_parser_fetch_stream_end)
            for m in (sm, em):
                if not _c_linecol_ok(m, n, lc):
                    T.violation(sub, 'c-line-column', case, detail='%s %s index=%d has (%d,%d), counting breaks gives %r'
                                % (who, type(it).__name__, m.index, m.line, m.column, lc.at(m.index)))
                    return
        elif exact:
            for m in (sm, em):
                if (m.line, m.column) != lc.at(m.index):
                    T.violation(sub, 'line-column', case, detail='%s %s index=%d has (%d,%d), counting breaks gives %r'
                                % (who, type(it).__name__, m.index, m.line, m.column, lc.at(m.index)))
                    return
        if exact:
            nm = type(it).__name__
            if nm == 'ScalarToken' and it.plain and not it.style:      # the C binding gives a plain token the style ''
                sl = text[sm.index:em.index]
                if not any(c in sl for c in '\n\r\x85\u2028\u2029') and sl != it.value:
                    T.violation(sub, 'slice', case, detail='%s plain scalar value %r but text[%d:%d]=%r' % (who, it.value, sm.index, em.index, sl))
                    return
            elif nm == 'AnchorToken' and text[sm.index:em.index] != '&' + it.value:
                T.violation(sub, 'slice', case, detail='anchor %r vs text %r' % (it.value, text[sm.index:em.index]))
                return
            elif nm == 'AliasToken' and text[sm.index:em.index] != '*' + it.value:
                T.violation(sub, 'slice', case, detail='alias %r vs text %r' % (it.value, text[sm.index:em.index]))
                return


def _c_linecol_ok(m, n, lc):
    l0, c0 = lc.at(m.index)
    return (m.line, m.column) == (l0, c0) or (m.index == n and c0 != 0 and (m.line, m.column) == (l0 + 1, 0))


def _check_err_marks(T, sub, case, who, e, text, lc, exact):
    n = len(text)
    if isinstance(e, yaml.MarkedYAMLError):
        for nm in ('context_mark', 'problem_mark'):
            m = getattr(e, nm, None)
            if m is None:
                continue
            if not (0 <= m.index <= n):
                T.violation(sub, 'error-mark-range', case, detail='%s %s.%s index=%d len=%d' % (who, type(e).__name__, nm, m.index, n))
            elif exact == 'c':
                if not _c_linecol_ok(m, n, lc):
                    T.violation(sub, 'c-error-line-column', case, detail='%s %s.%s index=%d has (%d,%d), counting gives %r'
                                % (who, type(e).__name__, nm, m.index, m.line, m.column, lc.at(m.index)))
            elif exact and (m.line, m.column) != lc.at(m.index):
                T.violation(sub, 'error-line-column', case, detail='%s %s.%s index=%d has (%d,%d), counting gives %r'
                            % (who, type(e).__name__, nm, m.index, m.line, m.column, lc.at(m.index)))


def check_text(T, sub, case, text, via=None):
    """via: None = the text itself; an int = delivered through a stream that hands out that many characters per read"""
    from ..streams import ChunkStream
    src = (lambda: text) if via is None else (lambda: ChunkStream(text, (via,)))
    lc = linecol.LineCol(text)
    nontriv = 0
    for be, Loader in (('py', yaml.Loader), ('c', yaml.CLoader)):
        # the C binding counts the index of a str in characters but gives a byte order mark no index at all: exact only without one
        exact = True if be == 'py' else ('c' if '\ufeff' not in text else False)
        toks, terr = [], None
        T.evaluations += 1
        try:
            for t in yaml.scan(src(), Loader=Loader):
                toks.append(t)
        except yaml.YAMLError as e:
            terr = e
        except RecursionError:
            continue
        tk = [TOKEN_KIND[type(t).__name__] for t in toks]
        _check_marks_seq(T, sub, case, be + '/scan', toks, TOKEN_KIND, text, lc, exact)
        if terr is None:
            if len(tk) > 3:
                nontriv = 1
            if not grammar.balanced_tokens(tk):
                T.violation(sub, 'token-brackets', case, detail='%s tokens %s' % (be, ' '.join(tk)))
        else:
            _check_err_marks(T, sub, case, be + '/scan', terr, text, lc, exact)
        evs, perr = [], None
        T.evaluations += 1
        try:
            for ev in yaml.parse(src(), Loader=Loader):
                evs.append(ev)
        except yaml.YAMLError as e:
            perr = e
        except RecursionError:
            continue
        ek = [EVENT_KIND[type(e).__name__] for e in evs]
        _check_marks_seq(T, sub, case, be + '/parse', evs, EVENT_KIND, text, lc, exact)
        if perr is None:
            if grammar.events_verdict(ek) != 'complete':
                T.violation(sub, 'event-grammar', case, detail='%s events %s' % (be, ' '.join(ek)))
            if terr is not None:
                T.violation(sub, 'parse-ok-scan-fails', case, detail='%s scan raised %s' % (be, type(terr).__name__))
            elif grammar.tokens_verdict(tk) != 'complete':
                T.violation(sub, 'token-grammar', case, detail='%s parses but tokens are not grammatical: %s' % (be, ' '.join(tk)))
        else:
            _check_err_marks(T, sub, case, be + '/parse', perr, text, lc, exact)
            if grammar.events_verdict(ek) == 'dead':
                T.violation(sub, 'event-grammar-prefix', case, detail='%s events before error: %s' % (be, ' '.join(ek)))
    T.nontrivial += nontriv


# ------------------------------------------------------------------ part B
def _mk(i):
    return Mark('stub', 2 * i, 0, 2 * i, None, None), Mark('stub', 2 * i + 1, 0, 2 * i + 1, None, None)


STUB_KINDS = [
    ('DIR', lambda a, b: DirectiveToken('YAML', (1, 1), a, b)),
    ('DIR', lambda a, b: DirectiveToken('YAML', (2, 0), a, b)),
    ('DIR', lambda a, b: DirectiveToken('TAG', ('!e!', 'tag:e,'), a, b)),
    ('DS', DocumentStartToken), ('DE', DocumentEndToken),
    ('BSS', BlockSequenceStartToken), ('BMS', BlockMappingStartToken), ('BE', BlockEndToken),
    ('FSS', FlowSequenceStartToken), ('FSE', FlowSequenceEndToken),
    ('FMS', FlowMappingStartToken), ('FME', FlowMappingEndToken),
    ('KEY', KeyToken), ('VAL', ValueToken), ('BENT', BlockEntryToken), ('FENT', FlowEntryToken),
    ('ALIAS', lambda a, b: AliasToken('a', a, b)), ('ANCHOR', lambda a, b: AnchorToken('a', a, b)),
    ('TAG', lambda a, b: TagToken(('!e!', 'x'), a, b)), ('TAG', lambda a, b: TagToken(('!', 'y'), a, b)),
    ('SCALAR', lambda a, b: ScalarToken('v', True, a, b)),
    ('SE', StreamEndToken),
]
NK = len(STUB_KINDS)


class NeedMore(Exception):
    pass


class StubLoader(Parser):
    """Parser over an explicit token list; looking beyond the list raises NeedMore (the explorer decides what comes next)."""

    def __init__(self, seq):
        Parser.__init__(self)
        self.toks = [StreamStartToken(*_mk(0), encoding=None)]
        for i, k in enumerate(seq):
            self.toks.append(STUB_KINDS[k][1](*_mk(i + 1)))
        self.pos = 0

    def _cur(self):
        if self.pos >= len(self.toks):
            raise NeedMore()
        return self.toks[self.pos]

    def check_token(self, *choices):
        t = self._cur()
        if not choices:
            return True
        return isinstance(t, choices)

    def peek_token(self):
        return self._cur()

    def get_token(self):
        t = self._cur()
        self.pos += 1
        return t


def _attrs(p):
    try:
        return (p.state.__name__ if p.state is not None else None, tuple(s.__name__ for s in p.states), len(p.marks),
                tuple(sorted(p.tag_handles.items())), p.yaml_version)
    except AttributeError:
        return None


def run_parser(seq):
    """execute the real parser on SS + seq.  Returns (status, events, canon, consumed, exc)"""
    p = StubLoader(seq)
    acc = EventAcceptor()
    evs = []
    status, exc = 'finished', None
    snap = (_attrs(p), p.pos)
    while True:
        snap = (_attrs(p), p.pos)
        try:
            if not p.check_event():
                break
        except NeedMore:
            status = 'need'
            break
        except ParserError as e:
            status, exc = 'error', e
            break
        except Exception as e:          # noqa - anything else is a violation, reported by the caller
            status, exc = 'crash', e
            break
        ev = p.get_event()
        evs.append(ev)
        acc.feed(EVENT_KIND[type(ev).__name__])
    kinds = tuple(STUB_KINDS[k][0] for k in seq)
    pending = tuple(seq[max(0, snap[1] - 1):]) if snap[1] > 0 else tuple(seq)
    canon = None if snap[0] is None else (snap[0], pending, acc.key())
    return status, evs, canon, p, acc, exc


def check_run(T, seq, res):
    status, evs, canon, p, acc, exc = res
    case = {'tokens': [STUB_KINDS[k][0] for k in seq], 'seq': list(seq)}
    sub = 'parser-stub'
    if status == 'crash':
        T.violation(sub, 'non-parser-error:' + type(exc).__name__, case, detail=repr(exc)[:300])
        return
    if acc.dead:
        T.violation(sub, 'event-grammar', case, detail='events %s' % ' '.join(EVENT_KIND[type(e).__name__] for e in evs))
        return
    # consumed tokens form a live prefix of the token grammar
    consumed = ['SS'] + [STUB_KINDS[k][0] for k in seq][:max(0, p.pos - 1)]
    if p.pos > 0 and grammar.tokens_verdict(consumed) == 'dead':
        T.violation(sub, 'consumed-ungrammatical-tokens', case, detail='consumed %s' % ' '.join(consumed))
    valid = {0, 1}
    for i in range(len(seq)):
        valid.add(2 * i + 2); valid.add(2 * i + 3)
    last = -1
    for ev in evs:
        a, b = ev.start_mark.index, ev.end_mark.index
        if a not in valid or b not in valid or a > b or a < last:
            T.violation(sub, 'event-marks', case, detail='%s marks %d..%d after %d' % (type(ev).__name__, a, b, last))
            break
        last = a
    if status == 'finished':
        if acc.key() != () and EVENT_KIND[type(evs[-1]).__name__] != 'SE':
            T.violation(sub, 'finished-incomplete', case, detail='event acceptor stack %r' % (acc.key(),))
        if grammar.tokens_verdict(consumed) != 'complete':
            T.violation(sub, 'accepted-ungrammatical-tokens', case, detail=' '.join(consumed))
        if getattr(p, 'states', []) or getattr(p, 'marks', []):
            T.violation(sub, 'leftover-stack', case, detail='states=%r marks=%d' % ([s.__name__ for s in p.states], len(p.marks)))
    elif status == 'error':
        for nm in ('context_mark', 'problem_mark'):
            m = getattr(exc, nm)
            if m is not None and m.index not in valid:
                T.violation(sub, 'error-mark-not-a-token-mark', case, detail='%s=%d' % (nm, m.index))


def bfs(T, first, depth):
    """all token sequences starting with `first` up to length depth, deduplicated on canonical state"""
    seen = set()
    frontier = [tuple(first)]
    res = run_parser(frontier[0])
    T.evaluations += 1
    check_run(T, frontier[0], res)
    if res[0] != 'need':
        T.transitions += 1
        return
    T.states += 1
    seen.add(res[2])
    stateless = res[2] is None
    while frontier:
        nxt = []
        for seq in frontier:
            if len(seq) >= depth:
                # depth bound: the environment answers STREAM-END
                s2 = seq + (NK - 1,)
                r = run_parser(s2)
                T.evaluations += 1; T.transitions += 1
                check_run(T, s2, r)
                T.outcome((r[0], type(r[5]).__name__, getattr(r[5], 'problem', None)))
                continue
            for k in range(NK):
                s2 = seq + (k,)
                if T.trace: T.begin({'seq': list(s2)})
                r = run_parser(s2)
                T.evaluations += 1; T.transitions += 1
                if r[1]:
                    T.nontrivial += 1
                check_run(T, s2, r)
                if r[0] != 'need':
                    T.outcome((r[0], type(r[5]).__name__, getattr(r[5], 'problem', None)))
                    continue
                if stateless or r[2] not in seen:
                    if not stateless:
                        seen.add(r[2])
                    T.states += 1
                    nxt.append(s2)
        frontier = nxt
    T.sample('parser-stub', {'tokens': [STUB_KINDS[k][0] for k in seq]})


# lexical sub-grammars whose errors are raised at, or just before, the end of the input
PIECE_HEADS = ['%TAG ', '%YAML ', '%', '!', '!!', '!<', '&', '*', '"\\', '"\\x', '"\\u', "'", '|', '>', '- !', 'k: &', '[*', '{!', '--- !', '%TAG !e! ']
PIECE_TAILS = ['', '!', '!a', '!a!', '!a! ', '!a! t', 'a', 'abc', '1', '1.', '1.1', '1.1 ', '<', '<a', '<a>', '>', ' ', '\n', 'a b', '%', '%4', '%41', '%zz', '4', '41', '-', '+', '2', '0', '9', 'é', '\t', '#', ',', ']', ':', 'a:',
               '\n---', '!a!b c', 'tag:x', 'e-1', 'e_1', '"', "''"]


# long inputs delivered through streams: positions must not depend on how the reader re-bases its buffer
LONG_SHAPES = [('map-lines', lambda n: ''.join('key%d: value %d\n' % (i, i) for i in range(n // 16))), ('seq-short', lambda n: '- a\n' * (n // 4)),
               ('long-comment', lambda n: 'a: 1\n# ' + 'c' * n + '\nb: 2\n- oops\n'), ('long-plain', lambda n: 'k: ' + 'word ' * (n // 5) + '\nj: [1, 2]\n'),
               ('long-quoted', lambda n: 'k: "' + 'ab ' * (n // 3) + '"\n&x y: *x\n'), ('flow', lambda n: '[' + 'item, ' * (n // 6) + 'last]\n--- second\n'),
               ('literal', lambda n: 'k: |\n' + '  line\n' * (n // 7) + 'after: 1\n'), ('wide', lambda n: '- \u00e9\U0001F600 x\n' * (n // 7))]


# ------------------------------------------------------------------ plan
def plan(tier, seed):
    q = tier == 'quick'
    jobs = []
    files = gen.corpus_files(400)
    for i, f in enumerate(files):
        if not q or i % 8 == seed % 8:
            np_ = max(1, os.path.getsize(f) // 40)
            jobs += [('corpus', os.path.basename(f), k, np_, (seed % 4) if q else None) for k in range(np_)]
    depth = 7 if q else 10
    jobs += [('bfs', (a, b), depth) for a in range(NK - 1) for b in range(NK)]
    jobs += [('bfs', (NK - 1,), depth)]
    jobs += gen.string_jobs('str', len(SIGMA), 4 if q else 5, plen=2)
    jobs += [('bom', i) for i in range(4)]
    jobs += [('bommid', n, a) for n in range(1, (5 if q else 6)) for a in range(8)]
    jobs += [('long', i) for i in range(len(LONG_SHAPES) * 3)]
    jobs += [('pieces', k) for k in range(len(PIECE_HEADS))]
    return jobs


def run_job(job, T):
    kind = job[0]
    if kind == 'str':
        _, n, prefix = job
        for s in gen.iter_strings(SIGMA, n, prefix):
            if T.trace: T.begin({'input': s})
            check_text(T, 'strings', {'input': s}, s)
        T.sample('strings', {'input': s})
    elif kind == 'bom':
        for s in gen.iter_strings(['a', ' ', '\n', ':', '-', '&', '*', '\r', '"'], job[1], ()):
            s = '\ufeff' + s
            check_text(T, 'bom-strings', {'input': s}, s)
        T.sample('bom-strings', {'input': s})
    elif kind == 'pieces':
        h = PIECE_HEADS[job[1]]
        s_ = None
        for a in PIECE_TAILS:
            for b in ('', '\n', ' x', '\n--- a\n'):
                s_ = h + a + b
                check_text(T, 'lexical-pieces', {'input': s_}, s_)
        T.sample('lexical-pieces', {'input': s_})
    elif kind == 'long':
        name, mkt = LONG_SHAPES[job[1] // 3]
        base = (4096, 8192, 12288)[job[1] % 3]
        for delta in (-40, -3, -1, 0, 1, 2, 5, 17, 100):
            text = mkt(base + delta)
            for via in (None, 4096, 1000, 7):
                case = {'long': name, 'size': base + delta, 'via': via}
                if T.trace: T.begin(case)
                check_text(T, 'long-streams', case, text, via=via)
        T.sample('long-streams', {'long': name, 'size': base + delta, 'via': via})
    elif kind == 'bommid':
        # a byte order mark anywhere in the text: the Reader gives it no width (O-linecol: U+FEFF never advances the column)
        alpha = ['a', ' ', '\n', ':', '-', '\ufeff', '"', '#']
        for s in gen.iter_strings(alpha, job[1], (job[2],)):
            if '\ufeff' in s:
                check_text(T, 'bom-anywhere', {'input': s}, s)
        T.sample('bom-anywhere', {'input': s})
    elif kind == 'corpus':
        path = os.path.join(os.environ.get('VERIF_REPO', '/repo'), 'tests', 'legacy_tests', 'data', job[1])
        raw = open(path, 'rb').read()
        try:
            text = raw.decode('utf-8')
        except UnicodeDecodeError:
            return
        if job[2] == 0:
            check_text(T, 'corpus', {'file': job[1], 'input': text}, text)
        for k, (ed, s) in enumerate(gen.edits1(text, SIGMA)):
            if k % job[3] != job[2]:
                continue
            if job[4] is not None and ed[1] % 4 != job[4]:
                continue
            c = {'file': job[1], 'edit': ed, 'input': s}
            if T.trace: T.begin(c)
            check_text(T, 'corpus-edits', c, s)
            T.sample('corpus-edits', c)
    elif kind == 'bfs':
        bfs(T, job[1], job[2])
    else:
        raise ValueError(job)


def replay(sub, case, T):
    if 'long' in case:
        check_text(T, sub, case, dict(LONG_SHAPES)[case['long']](case['size']), via=case.get('via'))
        return
    if sub == 'parser-stub':
        seq = tuple(case['seq'])
        check_run(T, seq, run_parser(seq))
    else:
        check_text(T, sub, case, case['input'])


def selftest():
    grammar.selftest()
    linecol.selftest()
    # the LibYAML end-of-input rule: (line+1, 0) is accepted at index == len(text) only, and only when the last line is not empty
    from collections import namedtuple
    M = namedtuple('M', 'index line column')
    L = linecol.LineCol('a\nbc')
    assert _c_linecol_ok(M(4, 1, 2), 4, L) and _c_linecol_ok(M(4, 2, 0), 4, L) and _c_linecol_ok(M(2, 1, 0), 4, L)
    assert not _c_linecol_ok(M(3, 2, 0), 4, L) and not _c_linecol_ok(M(4, 2, 1), 4, L) and not _c_linecol_ok(M(2, 0, 2), 4, L)
    assert not _c_linecol_ok(M(2, 2, 0), 2, linecol.LineCol('a\n'))
    r = run_parser((20, 21))
    assert r[0] == 'finished' and [EVENT_KIND[type(e).__name__] for e in r[1]] == ['SS', 'DS', 'SCALAR', 'DE', 'SE'], r
    assert run_parser((13,))[0] == 'error' or run_parser((13, 21))[0] == 'error'
    assert run_parser((6, 12))[0] == 'need'
