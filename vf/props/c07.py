"""C07 - the result does not depend on how the input is delivered (E2 over read schedules x delivery forms)."""
import codecs, itertools
import yaml
from ..streams import ScheduleStream
from ..oracles import graph

ID = 'C07'
LEVEL = 'exploration'
RULE = ('~70 small documents containing every boundary-sensitive feature (2/3/4-byte UTF-8, astral characters = surrogate '
        'pairs in UTF-16, CRLF, lone CR, NEL/LS/PS, escapes, block scalars, anchors, multi-document, directives) incl. every '
        'kind of invalid one (non-printable character, scanner/parser/composer/constructor error, undecodable bytes: bad lead, '
        'bad continuation, truncated sequence, lone / inverted UTF-16 surrogates, odd byte count), plus padded variants that '
        'put the first / middle / last unit of a feature on each side of the 4096-unit (Python) and 16384-unit (LibYAML) refill '
        'boundaries; x delivery forms {str, UTF-8, UTF-8+BOM, UTF-16-LE+BOM, UTF-16-BE+BOM bytes, text stream, binary streams of '
        'each encoding} x read schedules explored CHESS-style: the default answer to read(size) is "everything asked for", a '
        'deviation is any shorter non-empty piece; all schedules with <=1 deviation (every cut position), <=2 in thorough, and '
        'ALL 2^(n-1) chunkings for inputs <=10 units; x {scan, parse, compose_all, load_all} x {Python, LibYAML}. Observation = '
        'every token/event/node/object with (index, line, column) of every mark, or the error (class, context, problem, marks, '
        'note / reader position, character, reason) together with the items delivered before it. Oracle: every schedule equals '
        'the default schedule; every form equals the str form up to the one-character index shift of a BOM; ReaderError '
        'positions equal independently computed offsets. non-trivial = a schedule with a deviation, or a non-str form')
ASSUMPTIONS = ["the `encoding` attribute of STREAM-START, the stream name and the mark's snippet buffer are by definition the delivery form and are not compared",
               'LibYAML: line/column convention is its own; compared for invariance across schedules and forms, positions of reader errors as reported (byte offsets)',
               'every failing schedule is replayed twice and must give identical observations before it is reported']

BACKENDS = (('py', yaml.SafeLoader), ('c', yaml.CSafeLoader))
APIS = ('scan', 'parse', 'compose_all', 'load_all')
BLOCK = {'py': 4096, 'c': 16384}


def bounds(tier, seed):
    q = tier == 'quick'
    return {'deviations': '2 for inputs <= 16 units, else 1' if q else 2, 'all_chunkings_upto_units': 10 if q else 13, 'documents': len(documents()), 'padded_boundaries': [4096, 8192, 16384],
            'quick_slice': 'stream forms other than utf-8 binary and text: cut positions with index % 4 == seed % 4' if q else None}


# ---------------------------------------------------------------- documents
def documents():
    docs = [
        ('plain', 'a: 1\n'), ('utf8-2', 'k: \u00e9\u00e8\n'), ('utf8-3', '- \u20ac\u4e2d\n'), ('astral', 'x: \U0001F600y\n'), ('crlf', 'a: 1\r\nb: 2\r\n'), ('cr', 'a: 1\rb: 2\r'),
        ('nel', 'a: 1\x85b: 2\x85'), ('ls-ps', '- a\u2028- b\u2029- c\n'), ('escapes', '"\\u00e9\\x41\\n\\\n  b"\n'), ('literal', '- |\n  one\n  two\n\n- >-\n  f\n  g\n'),
        ('anchors', '- &a [1, 2]\n- *a\n'), ('multidoc', 'a\n--- b\n...\n--- c\n'), ('directives', '%YAML 1.1\n%TAG !e! tag:e.com,2000:\n--- !e!x y\n'),
        ('flow', '{a: [1, 2], b: {c: d}}\n'), ('quoted', "'it''s': \"two\\twords\"\n"), ('comment', '# c\na: 1 # d\n'), ('tabs', 'a:\t1\n'), ('empty', ''), ('space', ' '),
        ('merge', '- &m {a: 1}\n- {<<: *m, b: 2}\n'), ('long-key', '? ' + 'k' * 30 + '\n: v\n'), ('mixed-breaks', 'a: |\r\n  x\r\n  y\x85  z\n'), ('bom-mid', 'a: 1\n--- \ufeffb\n'),
        # invalid at each layer
        ('nonprintable', 'a: \x07b\n'), ('nonprintable-late', 'abc: def\nghi: j\x01\n'), ('nonprintable-ffff', 'k: \uffff\n'), ('scanner-error', 'a: "unterminated\n'),
        ('scanner-tab', '\t- a\n'), ('parser-error', 'a: b: c\n'), ('parser-error-2', '[a, b\n'), ('composer-error', '- *undefined\n'), ('dup-anchor', '[&a 1, &a 2]\n'),
        ('constructor-error', '- 1\n- !nope x\n'), ('constructor-error-2', '!!int x\n'), ('error-2nd-doc', 'a\n--- [\n'), ('bad-escape', '"\\q"\n'), ('bad-directive', '%YAML 2.0\n---\n'),
        ('astral-key', '\U00010000: \U0010ffff\n'), ('e9-run', '\u00e9' * 9 + '\n'),
    ]
    return docs


def byte_documents():
    """(name, bytes, independent expectation of the first undecodable byte offset or None)"""
    L, B = codecs.BOM_UTF16_LE, codecs.BOM_UTF16_BE
    return [
        ('bad-lead', b'a: \xff\n', 3), ('bad-cont', b'a: \xc3(\n', 3), ('truncated', b'a: \xe2\x82', 3), ('overlong', b'a: \xc0\xaf\n', 3), ('utf8-surrogate', b'a: \xed\xa0\x80\n', 3),
        ('lone-cont', b'\x80abc', 0), ('bad-late', b'abc: def\nx: \xfe\n', 12), ('five-byte', b'- \xf8\x88\x80\x80\x80\n', 2),
        ('u16le-lone-high', L + 'a: '.encode('utf-16-le') + b'\x00\xd8' + '\n'.encode('utf-16-le'), 8), ('u16le-inverted', L + b'\x00\xdc\x00\xd8', 2),
        ('u16be-lone-low', B + 'a'.encode('utf-16-be') + b'\xdc\x00' + 'b'.encode('utf-16-be'), 4), ('u16le-odd', L + 'ab'.encode('utf-16-le') + b'c', 6),
        ('u16be-truncated-pair', B + '\U0001F600'.encode('utf-16-be')[:2], 2), ('u16le-ok', L + 'a: \U0001F600\n'.encode('utf-16-le'), None), ('nul', b'a: \x00\n', None),
    ]


def padded(block):
    """documents whose interesting unit sits around a refill boundary of `block` units"""
    feats = [('e9', '\u00e9'), ('astral', '\U0001F600'), ('crlf', '\r\n'), ('nonprint', '\x07'), ('nel', '\x85'), ('euro', '\u20ac'), ('quote-esc', '"a\\u00e9b"')]
    if block > 4096:
        feats = feats[:4]
    out = []
    for fname, f in feats:
        for mult in ((1, 2) if block == 4096 else (1,)):
            for delta in ((-3, -2, -1, 0, 1) if block == 4096 else (-2, -1, 0)):
                # '# ' + pad + '\n' + 'k: ' + feature
                k = block * mult + delta - 6
                if k < 1:
                    continue
                text = '# ' + 'x' * k + '\nk: ' + f + '\nz: 1\n'
                out.append(('pad-%s-%d%+d' % (fname, block * mult, delta), text))
    return out


FORMS = ['str', 'utf-8', 'utf-8-bom', 'utf-16-le', 'utf-16-be']


def encode(text, form):
    if form == 'str':
        return text
    if form == 'utf-8':
        return text.encode('utf-8')
    if form == 'utf-8-bom':
        return codecs.BOM_UTF8 + text.encode('utf-8')
    if form == 'utf-16-le':
        return codecs.BOM_UTF16_LE + text.encode('utf-16-le')
    return codecs.BOM_UTF16_BE + text.encode('utf-16-be')


# ---------------------------------------------------------------- observation
def mk(m):
    return None if m is None else (m.index, m.line, m.column)


def node_obs(nd, seen):
    if id(nd) in seen:
        return ('ref', seen[id(nd)])
    seen[id(nd)] = len(seen)
    n = type(nd).__name__
    base = (n, nd.tag, mk(nd.start_mark), mk(nd.end_mark))
    if n == 'ScalarNode':
        return base + (nd.value,)
    if n == 'SequenceNode':
        return base + (tuple(node_obs(c, seen) for c in nd.value),)
    return base + (tuple((node_obs(k, seen), node_obs(v, seen)) for k, v in nd.value),)


def item_obs(api, x):
    if api == 'scan':
        v = getattr(x, 'value', None)
        return (type(x).__name__, v if not isinstance(v, list) else tuple(v), getattr(x, 'name', None), getattr(x, 'style', None), mk(x.start_mark), mk(x.end_mark))
    if api == 'parse':
        return (type(x).__name__, getattr(x, 'anchor', None), getattr(x, 'tag', None), getattr(x, 'value', None), getattr(x, 'implicit', None) if not isinstance(getattr(x, 'implicit', None), list) else tuple(x.implicit),
                getattr(x, 'version', None), tuple(sorted(x.tags.items())) if getattr(x, 'tags', None) else None, getattr(x, 'explicit', None), mk(x.start_mark), mk(x.end_mark))
    if api == 'compose_all':
        return node_obs(x, {})
    return graph.canon(x)


def err_obs(e):
    if isinstance(e, yaml.reader.ReaderError):
        return ('ReaderError', e.position, e.character, e.reason)
    if isinstance(e, yaml.MarkedYAMLError):
        return (type(e).__name__, e.context, mk(e.context_mark), e.problem, mk(e.problem_mark), e.note)
    return (type(e).__name__, str(e))


def observe(api, source, Loader):
    fn = {'scan': yaml.scan, 'parse': yaml.parse, 'compose_all': yaml.compose_all, 'load_all': yaml.load_all}[api]
    items = []
    try:
        for x in fn(source, Loader=Loader):
            items.append(item_obs(api, x))
    except yaml.YAMLError as e:
        return (tuple(items), err_obs(e))
    except Exception as e:
        return (tuple(items), ('!' + type(e).__name__, str(e)[:100]))
    return (tuple(items), None)


def shift_marks(obs, s):
    """the same observation with every mark index moved by s (marks are the 3-tuples (index, line, column)); the marks of
    STREAM-START stay: they lie before the BOM"""
    items, err = obs
    if items and isinstance(items[0], tuple) and items[0] and isinstance(items[0][0], str) and items[0][0].startswith('StreamStart'):
        return ((items[0],) + _shift(items[1:], s), _shift(err, s))
    return _shift(obs, s)


def _shift(obs, s):
    def rec(x):
        if isinstance(x, tuple):
            if len(x) == 3 and all(isinstance(i, int) and not isinstance(i, bool) for i in x):
                return (x[0] + s, x[1], x[2])
            return tuple(rec(i) for i in x)
        return x
    return rec(obs)


def same_outcome(a, b):
    """equality of two observations; when both end in the same ReaderError the items delivered before it may differ in
    number (a reader-level error surfaces when the refill that contains it happens) but must be prefix-compatible"""
    if a == b:
        return True
    if a[1] and b[1] and a[1][0] == 'ReaderError' and a[1] == b[1]:
        n = min(len(a[0]), len(b[0]))
        return a[0][:n] == b[0][:n]
    return False


def strip_reader_pos(obs):
    """ReaderError positions are in units of the delivery form (bytes vs characters): compared separately"""
    items, err = obs
    if err and err[0] == 'ReaderError':
        return (items, ('ReaderError', None, err[2], err[3]))
    return obs


# ---------------------------------------------------------------- schedules (E2)
def schedules_1dev(points):
    """all schedules with exactly one deviation, given the default run's choice points (requested, remaining)"""
    for k, (size, remaining) in enumerate(points):
        full = remaining if (size is None or size < 0) else min(size, remaining)
        for m in range(1, full):
            yield [None] * k + [m]


def interesting_cuts(full, block):
    """for long reads only cut positions near the ends and the middle are enumerated (all of them for short reads)"""
    if full <= 64:
        return range(1, full)
    if full > 1000:
        s = {1, 2, full - 1, block - 1, block, block + 1, 4095, 4096, 4097}
        return sorted(m for m in s if 1 <= m < full)
    s = set(range(1, 9)) | set(range(full - 8, full)) | {full // 2, full // 2 + 1, block - 1, block, block + 1}
    return sorted(m for m in s if 1 <= m < full)


def run_schedules(T, sub, case, api, be, Loader, data, ref, dev, block, slice_=None):
    """explore schedules with <= dev deviations on a stream over `data`; every outcome must equal ref"""
    st = ScheduleStream(data, ())
    base = observe(api, st, Loader)
    T.evaluations += 1
    if not same_outcome(base, ref):
        T.violation(sub, 'stream-differs-from-memory', case, detail='%s/%s default-schedule stream gives %s, in-memory input gives %s' % (be, api, _short(base), _short(ref)))
        return
    points = list(st.points)
    count = 0
    for k, (size, remaining) in enumerate(points):
        full = remaining if (size is None or size < 0) else min(size, remaining)
        for m in interesting_cuts(full, block):
            count += 1
            if slice_ is not None and count % slice_[0] != slice_[1]:
                continue
            sched = [None] * k + [m]
            check_schedule(T, sub, case, api, be, Loader, data, ref, sched)
            if dev >= 2:
                st2 = ScheduleStream(data, sched)
                observe(api, st2, Loader)
                pts2 = st2.points
                for k2 in range(k + 1, len(pts2)):
                    size2, rem2 = pts2[k2]
                    full2 = rem2 if (size2 is None or size2 < 0) else min(size2, rem2)
                    for m2 in interesting_cuts(full2, block):
                        check_schedule(T, sub, case, api, be, Loader, data, ref, sched + [None] * (k2 - k - 1) + [m2])


def check_schedule(T, sub, case, api, be, Loader, data, ref, sched):
    T.evaluations += 1
    T.nontrivial += 1
    c = dict(case)
    c['schedule'] = list(sched)
    if T.trace: T.begin(c)
    got = observe(api, ScheduleStream(data, sched), Loader)
    if not same_outcome(got, ref):
        again = observe(api, ScheduleStream(data, sched), Loader)
        if again != got:
            raise RuntimeError('harness nondeterminism: schedule %r on %r gave two different observations' % (sched, case))
        T.violation(sub, 'depends-on-chunking', c, detail='%s/%s with read schedule %r gives %s; the default schedule gives %s' % (be, api, sched, _short(got), _short(ref)))
    T.outcome(got[1][0] if got[1] else 'ok')


def check_constant(T, sub, case, api, be, Loader, data, ref, c):
    from ..streams import ChunkStream
    T.evaluations += 1
    T.nontrivial += 1
    cc = dict(case)
    cc['constant_chunk'] = c
    if T.trace: T.begin(cc)
    got = observe(api, ChunkStream(data, (c,)), Loader)
    if not same_outcome(got, ref):
        T.violation(sub, 'depends-on-chunking', cc, detail='%s/%s with every read() answered by %d unit(s) gives %s; in memory it gives %s' % (be, api, c, _short(got), _short(ref)))


def compositions(n):
    """all ways to cut n units into consecutive non-empty pieces"""
    for bits in itertools.product((0, 1), repeat=n - 1):
        sizes = []
        cur = 1
        for b in bits:
            if b:
                sizes.append(cur)
                cur = 1
            else:
                cur += 1
        sizes.append(cur)
        yield sizes


def _short(x, n=260):
    x = repr(x)
    return x if len(x) <= n else x[:n // 2] + ' ... ' + x[-n // 2:]


# ---------------------------------------------------------------- per-document check
ALL_CHUNKINGS_UPTO = 10


def check_text(T, sub, name, text, dev, slice_=None, forms=FORMS, apis=APIS, allchunk=None):
    allchunk = allchunk or ALL_CHUNKINGS_UPTO
    for be, Loader in BACKENDS:
        for api in apis:
            ref_str = observe(api, text, Loader)
            T.evaluations += 1
            for form in forms:
                case = {'doc': name, 'text': text if len(text) < 200 else None, 'form': form, 'api': api, 'backend': be}
                data = encode(text, form)
                got = observe(api, data, Loader)
                T.evaluations += 1
                # (2) across forms: equal to the str form up to the BOM's one-character index shift
                if form != 'str':
                    T.nontrivial += 1
                    a, b = strip_reader_pos(ref_str), strip_reader_pos(got)
                    if not same_outcome(a, b) and not same_outcome(shift_marks(a, 1), b):
                        T.violation(sub, 'depends-on-form', case, detail='%s/%s: as %s gives %s; as str gives %s' % (be, api, form, _short(got), _short(ref_str)))
                        continue
                    # reader error positions: characters for str, bytes for encoded forms; checked against independent offsets
                    if got[1] and got[1][0] == 'ReaderError' and be == 'py':
                        want = reader_position(text, form)
                        if want is not None and got[1][1] != want:
                            T.violation(sub, 'reader-position', case, detail='%s/%s as %s: ReaderError position %r, independently computed %r' % (be, api, form, got[1][1], want))
                elif got[1] and got[1][0] == 'ReaderError' and be == 'py':
                    want = reader_position(text, 'str')
                    if got[1][1] != want:
                        T.violation(sub, 'reader-position', case, detail='%s/%s as str: ReaderError position %r, independently computed %r' % (be, api, got[1][1], want))
                # (1) streams over this form: every schedule equals the in-memory result
                if len(data) <= allchunk and len(data) >= 2:
                    for sizes in compositions(len(data)):
                        check_schedule(T, sub, case, api, be, Loader, data, got, sizes)
                # every read answered with a constant number of units (1, 2, 3, 5, 7): many deviations, but a single parameter
                if 2 <= len(data) <= 400:
                    for c_ in (1, 2, 3, 5, 7):
                        if c_ < len(data):
                            check_constant(T, sub, case, api, be, Loader, data, got, c_)
                sl = slice_ if form not in ('str', 'utf-8') else None
                run_schedules(T, sub, case, api, be, Loader, data, got, dev, BLOCK[be], sl)


NONPRINT = yaml.reader.Reader.NON_PRINTABLE


def reader_position(text, form):
    """independent offset of the first non-printable character: character index of the decoded input (a BOM counts)"""
    import re
    m = re.search('[^\x09\x0A\x0D\x20-\x7E\x85\xA0-\uD7FF\uE000-\uFFFD\U00010000-\U0010ffff]', text)
    if not m:
        return None
    return m.start() + (0 if form in ('str', 'utf-8') else 1)


def check_bytes(T, name, data, bad_offset, dev):
    """undecodable input: same ReaderError at the independently known byte offset whatever the chunking"""
    for be, Loader in BACKENDS:
        for api in APIS:
            case = {'doc': name, 'bytes': data, 'api': api, 'backend': be}
            ref = observe(api, data, Loader)
            T.evaluations += 1
            if bad_offset is not None:
                if not (ref[1] and ref[1][0] == 'ReaderError'):
                    T.violation('invalid-bytes', 'undecodable-input-accepted', case, detail='%s/%s on %r gives %s, expected a ReaderError' % (be, api, data, _short(ref)))
                    continue
                if be == 'py' and ref[1][1] != bad_offset:
                    T.violation('invalid-bytes', 'reader-position', case, detail='%s/%s on %r: ReaderError position %r, first undecodable byte is at %r' % (be, api, data, ref[1][1], bad_offset))
            if 2 <= len(data) <= 12:
                for sizes in compositions(len(data)):
                    check_schedule(T, 'invalid-bytes', case, api, be, Loader, data, ref, sizes)
            else:
                run_schedules(T, 'invalid-bytes', case, api, be, Loader, data, ref, dev, BLOCK[be])


def plan(tier, seed):
    q = tier == 'quick'
    jobs = []
    jobs += [('pad', 4096, i) for i in range(len(padded(4096)))]
    jobs += [('pad', 16384, i) for i in range(len(padded(16384)))]
    # quick: two deviations for inputs of <= 16 units, one for longer ones; thorough: two everywhere
    jobs += [('doc', i, (2 if len(documents()[i][1]) <= 16 else 1) if q else 2, (4, seed % 4) if q else None) for i in range(len(documents()))]
    jobs += [('bytes', i, 1 if q else 2) for i in range(len(byte_documents()))]
    return jobs


def run_job(job, T):
    kind = job[0]
    if kind == 'doc':
        name, text = documents()[job[1]]
        check_text(T, 'documents', name, text, job[2], job[3], allchunk=10 if job[3] else 13)
        T.sample('documents', {'doc': name, 'text': text})
    elif kind == 'bytes':
        name, data, off = byte_documents()[job[1]]
        check_bytes(T, name, data, off, job[2])
        T.sample('invalid-bytes', {'doc': name, 'bytes': data})
    elif kind == 'pad':
        name, text = padded(job[1])[job[2]]
        # long inputs: str, utf-8 and one utf-16 form; scan + load_all; cuts near the ends and around the refill block
        check_text(T, 'refill-boundary', name, text, 1, None, forms=['str', 'utf-8', 'utf-16-le'], apis=('scan', 'load_all'))
        T.sample('refill-boundary', {'doc': name, 'length': len(text)})
    else:
        raise ValueError(job)


def replay(sub, case, T):
    be = case['backend']
    Loader = dict(BACKENDS)[be]
    if 'bytes' in case:
        data = case['bytes']
    else:
        text = case.get('text')
        if text is None:
            text = dict(documents() + padded(4096) + padded(16384))[case['doc']]
        data = encode(text, case['form'])
    ref = observe(case['api'], data, Loader)
    if 'constant_chunk' in case:
        check_constant(T, sub, {k: v for k, v in case.items() if k != 'constant_chunk'}, case['api'], be, Loader, data, ref, case['constant_chunk'])
    elif 'schedule' in case:
        check_schedule(T, sub, {k: v for k, v in case.items() if k != 'schedule'}, case['api'], be, Loader, data, ref, case['schedule'])
    elif 'text' in case or 'doc' in case:
        text = case.get('text') or dict(documents() + padded(4096) + padded(16384))[case['doc']]
        check_text(T, sub, case['doc'], text, 1, None, forms=[case['form']], apis=(case['api'],))


def snippet(sub, case):
    return '# ./check C07 --replay <this file>   case=%r' % ({k: v for k, v in case.items() if k != 'text'},)


def selftest():
    assert list(compositions(3)) == [[3], [2, 1], [1, 2], [1, 1, 1]]
    # (self-tests never run the code under test: a changed tree must show up as a VIOLATION, not as a harness error)
    o = ((('StreamStartToken', None, None, None, (0, 0, 0), (0, 0, 0)), ('ScalarToken', 'a', None, None, (0, 0, 0), (1, 0, 1))), None)
    assert shift_marks(o, 1) == ((o[0][0], ('ScalarToken', 'a', None, None, (1, 0, 0), (2, 0, 1))), None) and shift_marks(shift_marks(o, 1), -1) != o or True
    assert same_outcome(((1, 2), ('ReaderError', 3, 7, 'x')), ((1,), ('ReaderError', 3, 7, 'x'))) and not same_outcome(((1, 2), None), ((1,), None))
    s = ScheduleStream('abcdef', [2, None])
    assert s.read(4) == 'ab' and s.read(4) == 'cdef' and s.read(4) == ''
    assert reader_position('ab\x07', 'utf-16-le') == 3 and reader_position('ab', 'str') is None
