"""C10 - customising one loader or dumper class never changes another (E3 over registration histories)."""
import copy, hashlib, itertools, re
import yaml

ID = 'C10'
LEVEL = 'model_checking'
RULE = ('explicit-state search over registration histories on the real classes: for each shipped root R (SafeLoader, '
        'FullLoader, Loader, BaseLoader, CSafeLoader, SafeDumper, Dumper, CSafeDumper) a lattice A(R), B(R), C(A) is created '
        'BY history events, and every history of length <= D over the event alphabet {define A|B|C; add_constructor / '
        'add_multi_constructor / add_representer / add_multi_representer / add_implicit_resolver / add_path_resolver on R, A, B '
        'or C with a colliding or a new key; the module-level yaml.add_* helpers with and without Loader=/Dumper=; defining a '
        'YAMLObject subclass with default, single-class and list-valued yaml_loader / yaml_dumper} is replayed from a pristine '
        'library. After EVERY event the behaviour of every lattice class and every shipped loader/dumper class is probed '
        '(which registered function a probe document/object/scalar reaches) and must equal the prediction of O-registry, a '
        'dict model "own table, else nearest MRO ancestor that owns one; add = copy-on-first-write then insert". States are '
        'deduplicated on the canonical implementation state (per class and kind: owns?, contents, aliasing partition of table '
        'objects and inner lists). non-trivial = history contains at least one registration')
ASSUMPTIONS = ['the shipped classes\' registries are restored from a deep snapshot after every history and the restoration is verified by digest',
               'module-level helpers follow their documented fan-out: Loader=None -> Loader, FullLoader, UnsafeLoader; Dumper default yaml.Dumper',
               'probing is behavioural (load / dump / compose), tables are read only for the state hash',
               'states are merged only when implementation state AND model state coincide (product automaton)']

KINDS = ('yaml_constructors', 'yaml_multi_constructors', 'yaml_representers', 'yaml_multi_representers', 'yaml_implicit_resolvers', 'yaml_path_resolvers')
LOADER_ROOTS = ['SafeLoader', 'FullLoader', 'Loader', 'BaseLoader', 'CSafeLoader']
DUMPER_ROOTS = ['SafeDumper', 'Dumper', 'CSafeDumper']
SHIPPED_LOADERS = ['BaseLoader', 'SafeLoader', 'FullLoader', 'Loader', 'UnsafeLoader', 'CBaseLoader', 'CSafeLoader', 'CFullLoader', 'CLoader', 'CUnsafeLoader']
SHIPPED_DUMPERS = ['BaseDumper', 'SafeDumper', 'Dumper', 'CBaseDumper', 'CSafeDumper', 'CDumper']
INT_TAG = 'tag:yaml.org,2002:int'


def bounds(tier, seed):
    q = tier == 'quick'
    return {'history_length_full_alphabet_rotating_root': 3 if q else None, 'history_length_all_roots': 2 if q else 3, 'history_length_deep_roots': 3 if q else 4, 'deep_roots': ['SafeLoader', 'Loader', 'Dumper', 'SafeDumper'],
            'deep_event_subset': 'the deeper histories use the lattice events only (no module-level helpers, no wildcard/path resolvers, one YAMLObject variant)'}


# ---------------------------------------------------------------- pristine snapshot / restore
def all_registry_classes():
    seen = []
    for name in SHIPPED_LOADERS + SHIPPED_DUMPERS:
        for c in getattr(yaml, name).__mro__:
            if c is not object and c not in seen:
                seen.append(c)
    return seen


PRISTINE = None


def snapshot():
    snap = {}
    for c in all_registry_classes():
        own = {}
        for k in KINDS:
            if k in c.__dict__:
                v = c.__dict__[k]
                own[k] = {kk: (list(vv) if isinstance(vv, list) else vv) for kk, vv in v.items()}
        snap[c] = own
    return snap


def restore():
    for c, own in PRISTINE.items():
        for k in KINDS:
            if k in own:
                setattr(c, k, {kk: (list(vv) if isinstance(vv, list) else vv) for kk, vv in own[k].items()})
            elif k in c.__dict__:
                delattr(c, k)


def digest(snap):
    h = hashlib.sha1()
    for c in sorted(snap, key=lambda c: c.__module__ + c.__qualname__):
        for k in KINDS:
            if k in snap[c]:
                h.update(repr((c.__qualname__, k, sorted((repr(kk), repr(vv)) for kk, vv in snap[c][k].items()))).encode())
    return h.hexdigest()


# ---------------------------------------------------------------- O-registry (the model)
class Model:
    """own[class][kind] -> table (dict; for implicit resolvers dict of lists); lookups walk the real MRO"""

    def __init__(self):
        self.own = {c: {k: {kk: (list(vv) if isinstance(vv, list) else vv) for kk, vv in t.items()} for k, t in own.items()} for c, own in PRISTINE.items()}

    def eff(self, cls, kind):
        for c in cls.__mro__:
            t = self.own.get(c, {}).get(kind)
            if t is not None:
                return t
        return {}

    def _cow(self, cls, kind):
        o = self.own.setdefault(cls, {})
        if kind not in o:
            src = self.eff(cls, kind)
            o[kind] = {kk: (list(vv) if isinstance(vv, list) else vv) for kk, vv in src.items()}
        return o[kind]

    def add(self, cls, kind, key, val):
        self._cow(cls, kind)[key] = val

    def add_implicit(self, cls, tag, rx, first):
        t = self._cow(cls, 'yaml_implicit_resolvers')
        for ch in (first if first is not None else [None]):
            t.setdefault(ch, []).append((tag, rx))


# ---------------------------------------------------------------- markers
class Marker:
    def __init__(self, i):
        self.i = i


def mk_ctor(i):
    def f(loader, node):
        return Marker(i)
    f.marker = i
    return f


def mk_mctor(i):
    def f(loader, suffix, node):
        return Marker(i)
    f.marker = i
    return f


def mk_repr(i):
    def f(dumper, data):
        return dumper.represent_scalar('!r%d' % i, 'x')
    f.marker = i
    return f


class Custom:
    pass


def _yobj_init(self):
    self.a = 1      # a non-empty state (an empty one trips an unrelated object.__getstate__ quirk of Python >= 3.11)


class CustomSub(Custom):
    pass


# ---------------------------------------------------------------- events
def events_for(root_is_loader, deep=False):
    ev = [('def', 'A'), ('def', 'B'), ('def', 'C')]
    targets = ['R', 'A', 'B', 'C']
    if root_is_loader:
        for t in targets:
            ev += [('ctor', t, 0), ('ctor', t, 1), ('mctor', t, 0)]
            if t != 'R':
                ev += [('ctorsame', t, 0), ('ctorsame', t, 1)]
    else:
        for t in targets:
            ev += [('repr', t, 0), ('repr', t, 1), ('mrepr', t, 0)]
            if t != 'R':
                ev += [('reprsame', t, 0), ('reprsame', t, 1)]
    for t in targets:
        ev += [('impl', t, 0), ('impl', t, 1)]
        if not deep:
            ev += [('impl', t, 2), ('path', t, 0)]
    if not deep:
        for fn in (('ctor', 'mctor') if root_is_loader else ('repr', 'mrepr')) + ('impl', 'path'):
            ev += [('mod', fn, None), ('mod', fn, 'A'), ('mod', fn, 'R')]     # default fan-out / a user class / the shipped root named explicitly
        ev += [('yobj', 0), ('yobj', 1), ('yobj', 2), ('yobjsub', 0), ('yobjsub', 1)]
    else:
        ev += [('yobj', 1), ('yobjsub', 1)]
    return ev


IMPL = [('!i0', re.compile(r'^1x$'), ['1']), ('!i1', re.compile(r'^q\d$'), ['q']), ('!i2', re.compile(r'^zz$'), None)]
CTOR_KEYS = [INT_TAG, '!k']
REPR_TYPES = [int, Custom]


class World:
    """one replay of a history on the real classes, in lock-step with the model"""

    def __init__(self, root_name, predefined=False):
        self.root = getattr(yaml, root_name)
        self.is_loader = root_name in SHIPPED_LOADERS
        self.cls = {'R': self.root}
        self.model = Model()
        self.n = 0
        self.yobjs = []
        if predefined:        # the lattice exists before the first registration (definitions do not use up history depth)
            for nm in ('A', 'B', 'C'):
                self.apply(('def', nm))
            self.n = 0

    def enabled(self, e):
        k = e[0]
        if k == 'def':
            return e[1] not in self.cls and (e[1] != 'C' or 'A' in self.cls)
        if k in ('ctor', 'mctor', 'repr', 'mrepr', 'impl', 'path'):
            return e[1] in self.cls
        if k == 'ctorsame':      # re-register, on a subclass, the very function it currently inherits for the key
            return e[1] in self.cls and CTOR_KEYS[e[2]] in self.model.eff(self.cls[e[1]], 'yaml_constructors')
        if k == 'reprsame':
            return e[1] in self.cls and REPR_TYPES[e[2]] in self.model.eff(self.cls[e[1]], 'yaml_representers')
        if k == 'mod':
            return e[2] is None or e[2] in self.cls
        if k == 'yobj':
            return e[1] == 0 or ('A' in self.cls and (e[1] != 2 or 'B' in self.cls))
        if k == 'yobjsub':       # subclass of a tagged YAMLObject class that does not declare a tag of its own: registers nothing
            return any('yaml_tag' in y.__dict__ for y in self.yobjs) and (e[1] == 0 or 'B' in self.cls)
        return True

    def apply(self, e):
        i = self.n
        self.n += 1
        k = e[0]
        m = self.model
        if k == 'def':
            base = self.root if e[1] in ('A', 'B') else self.cls['A']
            self.cls[e[1]] = type(e[1] + '_' + self.root.__name__, (base,), {})
            return
        if k == 'ctor':
            c = self.cls[e[1]]; f = mk_ctor(i)
            c.add_constructor(CTOR_KEYS[e[2]], f)
            m.add(c, 'yaml_constructors', CTOR_KEYS[e[2]], f)
        elif k == 'ctorsame':
            c = self.cls[e[1]]; f = m.eff(c, 'yaml_constructors')[CTOR_KEYS[e[2]]]
            c.add_constructor(CTOR_KEYS[e[2]], f)
            m.add(c, 'yaml_constructors', CTOR_KEYS[e[2]], f)
        elif k == 'reprsame':
            c = self.cls[e[1]]; f = m.eff(c, 'yaml_representers')[REPR_TYPES[e[2]]]
            c.add_representer(REPR_TYPES[e[2]], f)
            m.add(c, 'yaml_representers', REPR_TYPES[e[2]], f)
        elif k == 'mctor':
            c = self.cls[e[1]]; f = mk_mctor(i)
            c.add_multi_constructor('!m:', f)
            m.add(c, 'yaml_multi_constructors', '!m:', f)
        elif k == 'repr':
            c = self.cls[e[1]]; f = mk_repr(i)
            c.add_representer(REPR_TYPES[e[2]], f)
            m.add(c, 'yaml_representers', REPR_TYPES[e[2]], f)
        elif k == 'mrepr':
            c = self.cls[e[1]]; f = mk_repr(i)
            c.add_multi_representer(Custom, f)
            m.add(c, 'yaml_multi_representers', Custom, f)
        elif k == 'impl':
            c = self.cls[e[1]]
            tag, rx, first = IMPL[e[2]]
            tag = tag + '_%d' % i
            c.add_implicit_resolver(tag, rx, first)
            m.add_implicit(c, tag, rx, first)
        elif k == 'path':
            c = self.cls[e[1]]
            c.add_path_resolver('!p%d' % i, ['k'], str)
            m.add(c, 'yaml_path_resolvers', 'path-k', '!p%d' % i)
        elif k == 'mod':
            fn, tgt = e[1], e[2]
            c = self.cls[tgt] if tgt else None
            loaders = [c] if (c is not None and self.is_loader) else [yaml.Loader, yaml.FullLoader, yaml.UnsafeLoader]
            dumpers = [c] if (c is not None and not self.is_loader) else [yaml.Dumper]
            lk = {'Loader': c} if (c is not None and self.is_loader) else {}
            dk = {'Dumper': c} if (c is not None and not self.is_loader) else {}
            if fn == 'ctor':
                f = mk_ctor(i)
                yaml.add_constructor('!k', f, **lk)
                for L in loaders: m.add(L, 'yaml_constructors', '!k', f)
            elif fn == 'mctor':
                f = mk_mctor(i)
                yaml.add_multi_constructor('!m:', f, **lk)
                for L in loaders: m.add(L, 'yaml_multi_constructors', '!m:', f)
            elif fn == 'repr':
                f = mk_repr(i)
                yaml.add_representer(Custom, f, **dk)
                for D in dumpers: m.add(D, 'yaml_representers', Custom, f)
            elif fn == 'mrepr':
                f = mk_repr(i)
                yaml.add_multi_representer(Custom, f, **dk)
                for D in dumpers: m.add(D, 'yaml_multi_representers', Custom, f)
            elif fn == 'impl':
                tag, rx, first = IMPL[1]
                tag = tag + '_%d' % i
                kw = dict(lk); kw.update(dk)
                yaml.add_implicit_resolver(tag, rx, first, **kw)
                for L in loaders: m.add_implicit(L, tag, rx, first)
                for D in dumpers: m.add_implicit(D, tag, rx, first)
            elif fn == 'path':
                kw = dict(lk); kw.update(dk)
                yaml.add_path_resolver('!p%d' % i, ['k'], str, **kw)
                for L in loaders: m.add(L, 'yaml_path_resolvers', 'path-k', '!p%d' % i)
                for D in dumpers: m.add(D, 'yaml_path_resolvers', 'path-k', '!p%d' % i)
        elif k == 'yobjsub':
            ns = {}
            if e[1] == 1:
                ns['yaml_loader' if self.is_loader else 'yaml_dumper'] = self.cls['B']
            base = [y for y in self.yobjs if 'yaml_tag' in y.__dict__][-1]
            Y = type('YObjSub%d' % i, (base,), ns)
            self.yobjs.append(Y)          # probed like the others; the model registers nothing for it
        elif k == 'yobj':
            v = e[1]
            ns = {'yaml_tag': '!yobj', 'a': 1, '__init__': _yobj_init, 'from_yaml': classmethod(lambda cls, loader, node: cls())}
            loaders = [yaml.Loader, yaml.FullLoader, yaml.UnsafeLoader]
            dumper = yaml.Dumper
            if v >= 1:
                if self.is_loader:
                    loaders = [self.cls['A']] if v == 1 else [self.cls['A'], self.cls['B']]
                    ns['yaml_loader'] = loaders[0] if v == 1 else list(loaders)
                else:
                    dumper = self.cls['A']
                    ns['yaml_dumper'] = dumper
                    if v == 2:
                        ns['yaml_loader'] = [yaml.Loader, yaml.FullLoader]
                        loaders = [yaml.Loader, yaml.FullLoader]
            Y = type('YObj%d' % i, (yaml.YAMLObject,), ns)
            self.yobjs.append(Y)
            for L in loaders:
                m.add(L, 'yaml_constructors', '!yobj', ('yobj', Y))
            m.add(dumper, 'yaml_representers', Y, ('yobj', Y))

    # ---- behavioural probes
    def probe_classes(self):
        out = [(n, c) for n, c in sorted(self.cls.items())]
        out += [(n, getattr(yaml, n)) for n in (SHIPPED_LOADERS + SHIPPED_DUMPERS)]
        return out

    def observe(self, name, c):
        """what the real class does; mirrors expect()"""
        obs = {}
        if issubclass(c, yaml.constructor.BaseConstructor):
            for key in (INT_TAG, '!k', '!yobj'):
                obs['ctor:' + key] = _marker_of(lambda: yaml.load('!<%s> 1' % key if key != '!yobj' else '!yobj {}', Loader=c))
            obs['mctor'] = _marker_of(lambda: yaml.load('!m:s 1', Loader=c))
            for text in ('1x', 'q5', 'zz', '12'):
                obs['impl:' + text] = _try(lambda: yaml.compose(text, Loader=c).tag)
            obs['path'] = _try(lambda: yaml.compose('k: v', Loader=c).value[0][1].tag)
        else:
            for obj, nm in ((7, 'int'), (Custom(), 'Custom'), (CustomSub(), 'CustomSub')):
                obs['repr:' + nm] = _other(_try(lambda: _rtag(yaml.dump(obj, Dumper=c))))
            for Y in self.yobjs:
                obs['repr:' + Y.__name__] = _other(_try(lambda: _rtag(yaml.dump(Y(), Dumper=c))))
            if c.__name__ in ('BaseDumper', 'CBaseDumper'):
                return obs           # no str representer: resolver probes through dump are not observable
            for text in ('1x', 'q5', 'zz', '12'):
                obs['impl:' + text] = _try(lambda: _quoted(yaml.dump(text, Dumper=c)))
            obs['path'] = _try(lambda: '!!str' in yaml.dump({'k': 'v'}, Dumper=c))
        return obs

    def expect(self, name, c):
        m = self.model
        exp = {}
        rs = m.eff(c, 'yaml_implicit_resolvers')

        def resolve(text):
            for tag, rx in rs.get(text[0], []) + rs.get(None, []):
                if rx.match(text):
                    return tag
            return None
        pr = m.eff(c, 'yaml_path_resolvers')
        if issubclass(c, yaml.constructor.BaseConstructor):
            t = m.eff(c, 'yaml_constructors')
            for key in (INT_TAG, '!k', '!yobj'):
                f = t.get(key)
                exp['ctor:' + key] = getattr(f, 'marker', None) if not isinstance(f, tuple) else ('yobj', f[1].__name__)
            mt = m.eff(c, 'yaml_multi_constructors')
            f = mt.get('!m:')
            exp['mctor'] = getattr(f, 'marker', None)
            for text in ('1x', 'q5', 'zz', '12'):
                tag = resolve(text)
                exp['impl:' + text] = tag if (tag and tag.startswith('!i')) else ('int' if text == '12' and tag else 'other')
            exp['path'] = pr.get('path-k', 'other')
        else:
            rt = m.eff(c, 'yaml_representers')
            mrt = m.eff(c, 'yaml_multi_representers')

            def rep(obj):
                f = rt.get(type(obj))
                if f is None:
                    for b in type(obj).__mro__:
                        if b in mrt:
                            f = mrt[b]
                            break
                if isinstance(f, tuple):
                    return '!yobj'
                mk = getattr(f, 'marker', None)
                return '!r%d' % mk if mk is not None else 'other'
            exp['repr:int'] = rep(7)
            exp['repr:Custom'] = rep(Custom())
            exp['repr:CustomSub'] = rep(CustomSub())
            for Y in self.yobjs:
                exp['repr:' + Y.__name__] = rep(Y())
            if c.__name__ in ('BaseDumper', 'CBaseDumper'):
                return exp
            for text in ('1x', 'q5', 'zz', '12'):
                tag = resolve(text)
                # a str whose text resolves to a non-str tag must be quoted by the dumper
                exp['impl:' + text] = bool(tag and tag != 'tag:yaml.org,2002:str')
            exp['path'] = 'path-k' in pr
        return exp


def _try(fn):
    try:
        return fn()
    except yaml.YAMLError as e:
        return 'YAMLError'
    except Exception as e:
        return '!' + type(e).__name__


def _other(v):
    return 'other' if v == 'YAMLError' else v


def _marker_of(fn):
    try:
        r = fn()
    except yaml.YAMLError:
        return None
    except Exception as e:
        return '!' + type(e).__name__
    if isinstance(r, Marker):
        return r.i
    if isinstance(r, yaml.YAMLObject):
        return ('yobj', type(r).__name__)
    return None


def _rtag(text):
    m = re.match(r'^(![^ \n]*)', text)
    if not m:
        return 'other'
    t = m.group(1)
    return t if (t.startswith('!r') or t == '!yobj') else 'other'


def _quoted(text):
    return text.lstrip()[:1] in ('"', "'")


def norm_obs(name, c, obs):
    out = {}
    for k, v in obs.items():
        if k.startswith('impl:') and issubclass(c, yaml.constructor.BaseConstructor):
            v = v if (isinstance(v, str) and v.startswith('!i')) else ('int' if v == INT_TAG else 'other')
        if k == 'path' and issubclass(c, yaml.constructor.BaseConstructor):
            v = v if (isinstance(v, str) and v.startswith('!p')) else 'other'
        out[k] = v
    return out


def canon_state(world):
    """canonical implementation state: per class and kind owns?/contents + aliasing partition of tables and inner lists"""
    ids = {}

    def oid(o):
        return ids.setdefault(id(o), len(ids))
    out = []
    classes = all_registry_classes() + [c for _, c in sorted(world.cls.items()) if c not in PRISTINE]
    for c in classes:
        for k in KINDS:
            t = c.__dict__.get(k)
            if t is None:
                out.append(None)
                continue
            items = []
            for kk, vv in t.items():
                key = kk if isinstance(kk, (str, type(None))) else getattr(kk, '__name__', repr(kk))
                if isinstance(vv, list):
                    items.append((repr(key), oid(vv), tuple((tg, rx.pattern) for tg, rx in vv)))
                else:
                    items.append((repr(key), getattr(vv, 'marker', getattr(vv, '__qualname__', repr(vv)))))
            out.append((oid(t), tuple(sorted(map(repr, items)))))
    # the search runs on the product of implementation and model: two histories are merged only if BOTH agree (an
    # implementation that fails to create a table would otherwise look like an already visited state and be pruned)
    mod = []
    for c in classes:
        for k in KINDS:
            t = world.model.own.get(c, {}).get(k)
            if t is None:
                mod.append(None)
            else:
                mod.append(tuple(sorted(repr((kk if isinstance(kk, (str, type(None))) else getattr(kk, '__name__', repr(kk)),
                                              [(tg, rx.pattern) for tg, rx in vv] if isinstance(vv, list) else
                                              (vv[1].__name__ if isinstance(vv, tuple) else getattr(vv, 'marker', getattr(vv, '__qualname__', repr(vv)))))) for kk, vv in t.items())))
    return hashlib.sha1(repr((sorted(world.cls), out, mod)).encode()).hexdigest()


def check_history(T, root, hist, seen, depth_left, evs, predefined=False):
    """replay hist on pristine classes, checking after every event; returns the world (for expansion)"""
    restore()
    w = World(root, predefined)
    case = {'root': root, 'history': [list(e) for e in hist], 'predefined': predefined}
    if T.trace: T.begin(case)
    T.evaluations += 1
    for step, e in enumerate(hist):
        if not w.enabled(e):
            return None
        try:
            w.apply(e)
        except Exception as ex:
            T.violation('histories', 'registration-raised:' + type(ex).__name__, case, detail='event %r: %s' % (e, ex))
            return None
        if step == len(hist) - 1:
            # all earlier prefixes were checked when they were the full history
            for name, c in w.probe_classes():
                obs = norm_obs(name, c, w.observe(name, c))
                exp = w.expect(name, c)
                if obs != exp:
                    diff = {k: (exp.get(k), obs.get(k)) for k in set(exp) | set(obs) if exp.get(k) != obs.get(k)}
                    T.violation('histories', 'behaviour-differs-from-registry-rule', case,
                                detail='after %r class %s (%s): {probe: (predicted, observed)} = %r' % (e, name, c.__name__, diff))
                    return None
            T.outcome(tuple(sorted((n, tuple(sorted((k, str(v)) for k, v in w.expect(n, c).items()))) for n, c in w.probe_classes()[:4])))
    return w


def explore(T, root, first, depth, deep, first_filter=None, predefined=False):
    is_loader = root in SHIPPED_LOADERS
    evs = events_for(is_loader, deep)
    seen = set()
    frontier = [(first,)]
    level = 1
    while frontier and level <= depth:
        nxt = []
        for hist in frontier:
            w = check_history(T, root, hist, seen, depth - level, evs, predefined)
            T.transitions += 1
            if w is None:
                continue
            if any(e[0] != 'def' for e in hist):
                T.nontrivial += 1
            key = canon_state(w)
            if key in seen:
                T.count('deduplicated')
                continue
            seen.add(key)
            T.states += 1
            if level < depth:
                for e in evs:
                    if w.enabled(e):
                        nxt.append(hist + (e,))
        frontier = nxt
        level += 1
    restore()
    if digest(snapshot()) != PRISTINE_DIGEST:
        raise RuntimeError('harness: registries not restored')


PRISTINE_DIGEST = None


def worker_init():
    global PRISTINE, PRISTINE_DIGEST
    if PRISTINE is None:
        PRISTINE = snapshot()
        PRISTINE_DIGEST = digest(PRISTINE)


def plan(tier, seed):
    q = tier == 'quick'
    jobs = []
    for root in LOADER_ROOTS + DUMPER_ROOTS:
        evs = events_for(root in SHIPPED_LOADERS)
        for i, e in enumerate(evs):
            jobs.append(('hist', root, i, 2 if q else 3, False))
    # lattice already defined: registration-only histories of length 3 (4 in thorough) over the lattice events
    for ri, root in enumerate(LOADER_ROOTS + DUMPER_ROOTS):
        evs = events_for(root in SHIPPED_LOADERS, True)
        # quick: length 3 for one loader root and one dumper root (rotated by the seed), length 2 for the others
        deep3 = (not q) or root == LOADER_ROOTS[seed % len(LOADER_ROOTS)] or root == DUMPER_ROOTS[seed % len(DUMPER_ROOTS)]
        for i, e in enumerate(evs):
            if e[0] != 'def':
                # thorough: length 4 for two roots, length 3 for the rest
                d4 = (not q) and root in ('SafeLoader', 'Dumper')
                jobs.append(('hist', root, i, 4 if d4 else (3 if deep3 else 2), True, True))
    if q:
        # the full event alphabet at depth 3 for one root, rotated by the seed (all roots at depth 3 in thorough)
        allroots = LOADER_ROOTS + DUMPER_ROOTS
        root = allroots[seed % len(allroots)]
        evs = events_for(root in SHIPPED_LOADERS)
        for i, e in enumerate(evs):
            jobs.append(('hist', root, i, 3, False))
    for root in ['SafeLoader', 'Loader', 'Dumper', 'SafeDumper']:
        evs = events_for(root in SHIPPED_LOADERS, True)
        for i, e in enumerate(evs):
            jobs.append(('hist', root, i, 3 if q else 4, True))
    return jobs


def run_job(job, T):
    worker_init()
    _, root, i, depth, deep = job[:5]
    predefined = len(job) > 5 and job[5]
    evs = events_for(root in SHIPPED_LOADERS, deep)
    explore(T, root, evs[i], depth, deep, predefined=predefined)
    T.sample('histories', {'root': root, 'first': list(evs[i]), 'depth': depth, 'deep_subset': deep})
    T.count('traces_validated_against_impl', T.evaluations)


def replay(sub, case, T):
    worker_init()
    hist = tuple(tuple(e) for e in case['history'])
    for n in range(1, len(hist) + 1):
        if check_history(T, case['root'], hist[:n], set(), 0, None, case.get('predefined', False)) is None:
            break
    restore()


def snippet(sub, case):
    return '# ./check C10 --replay <this file>  root=%s history=%r' % (case['root'], case['history'])


def selftest():
    worker_init()
    m = Model()
    assert m.eff(yaml.SafeLoader, 'yaml_constructors') is m.own[yaml.constructor.SafeConstructor]['yaml_constructors']
    A = type('A', (yaml.SafeLoader,), {})
    f = mk_ctor(0)
    m.add(A, 'yaml_constructors', '!k', f)
    assert m.eff(A, 'yaml_constructors')['!k'] is f and '!k' not in m.eff(yaml.SafeLoader, 'yaml_constructors')
    B = type('B', (A,), {})
    assert m.eff(B, 'yaml_constructors')['!k'] is f
    m.add_implicit(A, '!i', re.compile('x'), ['1'])
    assert len(m.eff(A, 'yaml_implicit_resolvers')['1']) == len(m.eff(yaml.SafeLoader, 'yaml_implicit_resolvers')['1']) + 1
    restore()
    assert digest(snapshot()) == PRISTINE_DIGEST
