"""C03 - reading never fails with anything but a YAMLError (E1 + watchdog)."""
import codecs, itertools, os
import yaml
from .. import gen
from ..streams import ChunkStream

ID = 'C03'
LEVEL = 'exploration'
RULE = ('bounded-exhaustive enumeration (each input exactly once): all strings <=L over the 29-symbol indicator '
        'alphabet, all byte strings <=L over 25 encoding-critical bytes, every double-quote escape x hex tail, '
        'directive and tag piece sequences, every 1-edit (truncate/delete/substitute/insert) of every small corpus '
        'file, nesting families; each x {scan,parse,compose_all} x {Python,LibYAML}. non-trivial = the input is '
        'not accepted as a single plain scalar/empty stream by the Python parser (i.e. exercises an error path or structure)')
ASSUMPTIONS = ['LibYAML back-end is the prebuilt/re-linked yaml/_yaml.c; edits to _yaml.pyx cannot take effect (no Cython in the sandbox)',
               'hang = one job exceeding VERIF_JOB_LIMIT then one case exceeding VERIF_CASE_LIMIT when re-run alone',
               'nesting kept below the interpreter recursion limit as the property states']

SIGMA = ['a', ' ', '\n', '-', ':', '[', ']', '{', '}', ',', '?', '#', '&', '*', '!', '|', '>', "'", '"', '%', '.',
         '\t', '\r', '\x85', '\u2028', '\\', '0', '<', '@']
BYTES = [0x00, 0x09, 0x0a, 0x0d, 0x20, 0x22, 0x2d, 0x3a, 0x61, 0x7f, 0x80, 0xbf, 0xc0, 0xc2, 0xe0, 0xed, 0xef,
         0xbb, 0xf0, 0xf4, 0xfe, 0xff, 0xd8, 0xdc, 0xa0]
DIR_PIECES = ['YAML', 'TAG', 'FOO', ' ', '1', '.', '1.1', '1.2', '2.0', '!', '!!', '!e!', 'tag:x,', '%41', '%zz', '%C3',
              '%C3%A9', '99999999999999999999', '\n', '#c', 'a', '9' * 4301, '9' * 5000]
TAG_PIECES = ['!', '<', '>', '%', '41', 'zz', 'C3', 'a', ' ', 'tag:', ',', '\n']
LONG_DIGIT_DOCS = ['%YAML ' + '1' * 5000 + '.1\n---\n', '%YAML 1.' + '1' * 4301 + '\n---\n', '1' * 5000, '- ' + '1' * 4301 + ':30', '0x' + 'f' * 5000, '!!int ' + '7' * 5000, 'k: |' + '9' * 5000, '&' + '1' * 5000 + ' x', '--- >' + '1' * 4400]
# characters that str.isdigit()/isalnum()/isspace() accept but the ASCII tests of the grammar do not
UNI_CHARS = ['\u00b2', '\u00b3', '\u00b9', '\u2460', '\u0663', '\uff11', '\u2075', '\u00bd', '\u0660', '\U0001d7d8', '\u2003', '\u00a0', '\u3000', '\uff21', '\u0130', '\u212a', '\u017f']
UNI_FRAMES = ['|%s\n a\n', '>%s\n a\n', '|-%s\n a\n', '>+%s\n a\n', 'k: |%s\n  a\n', '|1%s\n a\n', '%%YAML 1.%s\n---\n', '%%YAML %s.1\n---\n', '%%TAG !%s! tag:x,\n---\n', '&%s a\n', '*%s\n',
              '!%s a\n', '!!%s a\n', '!<%s> a\n', '"\\x4%s"\n', '"\\u004%s"\n', '"\\%s"\n', '- %s\n', '%s: 1\n', '[%s]\n', '{%s: %s}\n', '%s', 'a%sb\n', '--- %s\n', '---%s\n', '...%s\n',
              "'a%s'\n", 'a #%s\n', 'a\n%s- b\n', '? %s\n: %s\n', '-%s a\n', 'k:%sv\n']


# implicit-resolver style regexes are run on every plain scalar: a long homogeneous run followed by a character that makes the
# match fail is the classic trigger of exponential backtracking ("never hangs")
BACKTRACK_UNITS = ['1', '0', '9', '1_', '_', '0x1', '0b1', '1:', ':1', '1.', '.1', '1e', 'e1', '+', '-', '2001-', '-01', '1 ', ' 1', 'a', 'y', 'n', 'o', 't', 'f', '~', '.', '<', '=', '0o',
                   '1:3', '0 ', '1.5', '_1', '00', '12:', '9_9', ':59', '.5e', 'e+', '1e1']
BACKTRACK_TAILS = ['x', ' x', ':', '.', '_', '-', '!', ' ', 'T', 'Z', ':x', '.x', 'e', 'ee', '+', '\n-']


HEX_TAILS = ['', '0', '00', '41', '004', '0041', '00000', '000041', '0000004', '00000041', 'D800', 'DFFF', 'FFFE',
             '00110000', '0010FFFF', '7FFFFFFF', '80000000', 'FFFFFFFF', 'zz', '0g', '0000D800', '0000FFFF', '00000000']

APIS = (('scan', yaml.scan), ('parse', yaml.parse), ('compose_all', yaml.compose_all))
BACKENDS = (('py', yaml.Loader), ('c', yaml.CLoader))


def bounds(tier, seed):
    q = tier == 'quick'
    return {'string_len': 4 if q else 5, 'string_len_seed_slice': 5 if q else None, 'bytes_len': 4 if q else 4,
            'directive_pieces': 3 if q else 4, 'tag_pieces': 4 if q else 5,
            'corpus_max_bytes': 400, 'corpus_edits': 1, 'corpus_files': 'index %% 8 == seed %% 8 in quick, all in thorough',
            'nesting_max': 150, 'flat_repetition': 'every unit of <= 2 symbols x 7 frames x %d repetitions' % REPEAT_N}


def _declen(data):
    """upper bound for mark indexes: number of characters of the decoded input (BOM counted)"""
    if isinstance(data, str):
        return len(data), len(data.encode('utf-8', 'surrogatepass'))
    if data.startswith(codecs.BOM_UTF16_LE) or data.startswith(codecs.BOM_UTF16_BE):
        return len(data) // 2 + 1, len(data)
    try:
        return len(data.decode('utf-8')), len(data)
    except UnicodeDecodeError:
        return len(data), len(data)


def check_error(T, sub, case, be, api, e, nchars, nbytes):
    if isinstance(e, yaml.MarkedYAMLError):
        for nm in ('context_mark', 'problem_mark'):
            m = getattr(e, nm, None)
            if m is None:
                continue
            if not (isinstance(m.index, int) and 0 <= m.index <= nchars and m.line >= 0 and m.column >= 0
                    and m.line <= m.index and m.column <= m.index):
                T.violation(sub, 'mark-out-of-range', case,
                            detail='%s/%s %s: %s index=%r line=%r column=%r, input has %d characters'
                                   % (be, api, type(e).__name__, nm, m.index, m.line, m.column, nchars))
    elif isinstance(e, yaml.reader.ReaderError):
        lim = nchars if (be == 'py' and isinstance(_payload(case), str)) else nbytes
        if not (isinstance(e.position, int) and 0 <= e.position <= lim):
            T.violation(sub, 'reader-position-out-of-range', case,
                        detail='%s/%s position=%r limit=%d' % (be, api, e.position, lim))


def _payload(case):
    return case['input'] if isinstance(case, dict) else case


class _Hang(BaseException):
    pass


class _TooManyHangs(Exception):
    pass


def _alarm(signum, frame):
    raise _Hang()


CASE_SECONDS = 10.0


def run_input(T, sub, case, data, via=None, backends=BACKENDS, apis=APIS, seconds=None):
    """the real code is executed here: every API x back-end on one input, under a per-input time limit (a Python-level
    endless loop is interrupted by SIGALRM and reported at once; a hang inside C code is left to the engine watchdog)"""
    import signal
    nchars, nbytes = _declen(data)
    nontriv = 0
    signal.signal(signal.SIGALRM, _alarm)
    signal.setitimer(signal.ITIMER_REAL, seconds or CASE_SECONDS)
    try:
        for be, Loader in backends:
            for an, api in apis:
                src = data if via is None else ChunkStream(data, (via,))
                T.evaluations += 1
                try:
                    res = list(api(src, Loader=Loader))
                    if an == 'parse' and be == 'py' and len(res) > 5:
                        nontriv = 1
                except yaml.YAMLError as e:
                    nontriv = 1
                    check_error(T, sub, case, be, an, e, nchars, nbytes)
                except RecursionError:
                    # out of scope only where the statement says so: the pure-Python composer on deeply nested input.
                    # The scanner and the parser are iterative, and flat input (long runs of comment or blank lines,
                    # many entries, many documents) has no business exhausting the stack anywhere.
                    depth = _max_depth(data if via is None else data, Loader) if (be == 'py' and an == 'compose_all') else 0
                    if depth >= 50:
                        T.count('recursion_out_of_scope')
                    else:
                        T.violation(sub, 'non-yaml-exception:RecursionError', case,
                                    detail='%s/%s raised RecursionError on input whose nesting depth is %d' % (be, an, depth))
                except _Hang:
                    raise
                except BaseException as e:        # anything else violates the property
                    T.violation(sub, 'non-yaml-exception:' + type(e).__name__, case,
                                detail='%s/%s raised %s: %s' % (be, an, type(e).__name__, str(e)[:200]))
                    break
    except _Hang:
        T.violation(sub, 'hang', case, detail='did not terminate within %.0f s' % (seconds or CASE_SECONDS))
        T.count('hangs')
        if T.counters['hangs'] >= 3:
            signal.setitimer(signal.ITIMER_REAL, 0)
            raise _TooManyHangs()
    finally:
        signal.setitimer(signal.ITIMER_REAL, 0)
    T.nontrivial += nontriv


def _max_depth(data, Loader):
    """deepest collection nesting among the events the parser produces (up to its first error, if any)"""
    d = m = 0
    try:
        for ev in yaml.parse(data, Loader=Loader):
            if isinstance(ev, yaml.CollectionStartEvent):
                d += 1
                m = max(m, d)
            elif isinstance(ev, yaml.CollectionEndEvent):
                d -= 1
    except (yaml.YAMLError, RecursionError):
        pass
    return m


# flat repetition: every unit of <= 2 symbols, repeated beyond the interpreter recursion limit, in seven frames
REPEAT_N = 1500
REPEAT_FRAMES = [('rep', lambda u, n: u * n), ('lines', lambda u, n: (u + '\n') * n), ('seq', lambda u, n: '- a\n' + (u + '\n') * n + '- b\n'), ('flow', lambda u, n: '[a,' + (u + '\n') * n + 'b]'),
                 ('dq', lambda u, n: '"' + u * n + '"'), ('val', lambda u, n: 'k: v\n' + (u + '\n') * n + 'j: w\n'), ('spaced', lambda u, n: (u + ' ') * n)]


def repeat_units():
    al = SIGMA + ['#c', '# c', '']
    seen = set()
    for a in al:
        for b in [''] + al:
            u = a + b
            if u not in seen:
                seen.add(u)
                yield u


def nest_family(i, n):
    return ['[' * n, '{a: ' * n, '- ' * n, '[' * n + ']' * n, '? ' * n, '{' * n, '- [' * n, 'a:\n' + ''.join(' ' * j + 'a:\n' for j in range(1, n)),
            '&a [' * n, '!!x [' * n, '"' + 'a' * n, '[' * n + 'a' + ',]' * n][i]


NFAM = 12


def plan(tier, seed):
    q = tier == 'quick'
    jobs = []
    files = gen.corpus_files(400)
    for i, f in enumerate(files):       # longest jobs first
        if not q or i % 8 == seed % 8:
            np_ = max(1, os.path.getsize(f) // 40)
            jobs += [('corpus', os.path.basename(f), k, np_) for k in range(np_)]
    jobs += gen.string_jobs('str', len(SIGMA), 4 if q else 5, plen=2)
    if q:   # seed slice of the length-5 space (fully enumerated in thorough)
        allj = gen.string_jobs('str', len(SIGMA), 5, plen=3, minlen=5)
        jobs += [j for i, j in enumerate(allj) if i % 64 == seed % 64]
    jobs += gen.string_jobs('bytes', len(BYTES), 4, plen=2)
    jobs += [('strstream', n, p) for (_, n, p) in gen.string_jobs('x', len(SIGMA), 3, plen=1)]
    jobs += [('bytestream', n, p) for (_, n, p) in gen.string_jobs('x', len(BYTES), 3, plen=1)]
    jobs += [('escape', i) for i in range(8)]
    dl = 3 if q else 4
    jobs += [('directive', dl, i) for i in range(len(DIR_PIECES))]
    tl = 4 if q else 5
    jobs += [('tag', tl, i) for i in range(len(TAG_PIECES))]
    jobs += [('nest', i) for i in range(NFAM)]
    jobs += [('longdigits',)]
    jobs += [('repeat', k, 32) for k in range(32)]
    jobs += [('unidigits', k) for k in range(len(UNI_CHARS))]
    jobs += [('backtrack', k) for k in range(len(BACKTRACK_UNITS))]
    return jobs


def run_job(job, T):
    try:
        _run_job(job, T)
    except _TooManyHangs:
        T.count('job-abandoned-after-3-hangs')


def _run_job(job, T):
    kind = job[0]
    if kind == 'str':
        _, n, prefix = job
        for s in gen.iter_strings(SIGMA, n, prefix):
            if T.trace: T.begin({'input': s})
            run_input(T, 'strings', {'input': s}, s)
        T.sample('strings', {'input': s})
    elif kind == 'bytes':
        _, n, prefix = job
        for b in gen.iter_bytes(BYTES, n, prefix):
            if T.trace: T.begin({'input': b})
            run_input(T, 'bytes', {'input': b}, b)
        T.sample('bytes', {'input': b})
    elif kind == 'strstream':
        _, n, prefix = job
        for s in gen.iter_strings(SIGMA, n, prefix):
            c = {'input': s, 'via': 1}
            if T.trace: T.begin(c)
            run_input(T, 'strings-stream', c, s, via=1)
        T.sample('strings-stream', c)
    elif kind == 'bytestream':
        _, n, prefix = job
        for b in gen.iter_bytes(BYTES, n, prefix):
            c = {'input': b, 'via': 1}
            if T.trace: T.begin(c)
            run_input(T, 'bytes-stream', c, b, via=1)
        T.sample('bytes-stream', c)
    elif kind == 'escape':
        xs = [chr(c) for c in range(0x20, 0x7f)] + ['\n', '\r', '\x85', '\u2028', '\u2029', '\xe9', '\t']
        for j, x in enumerate(xs):
            if j % 8 != job[1]:
                continue
            for tail in HEX_TAILS:
                for close in ('"', ''):
                    s = '"\\' + x + tail + close
                    c = {'input': s}
                    if T.trace: T.begin(c)
                    run_input(T, 'escapes', c, s)
                    if x in 'xuU':
                        c = {'input': 'k: ' + s + '\n'}
                        run_input(T, 'escapes', c, c['input'])
        T.sample('escapes', c)
    elif kind == 'directive':
        _, L, first = job
        for n in range(0, L):
            for rest in itertools.product(DIR_PIECES, repeat=n):
                body = '%' + DIR_PIECES[first] + ''.join(rest)
                for tail in ('', '\n---\na', '\n--- !e!x a\n'):
                    c = {'input': body + tail}
                    if T.trace: T.begin(c)
                    run_input(T, 'directives', c, c['input'])
        T.sample('directives', c)
    elif kind == 'tag':
        _, L, first = job
        for n in range(0, L):
            for rest in itertools.product(TAG_PIECES, repeat=n):
                body = '!' + TAG_PIECES[first] + ''.join(rest)
                for fr in ('%s', '%s a', '[%s]', '&a %s\n'):
                    c = {'input': fr % body}
                    if T.trace: T.begin(c)
                    run_input(T, 'tags', c, c['input'])
        T.sample('tags', c)
    elif kind == 'corpus':
        path = os.path.join(os.environ.get('VERIF_REPO', '/repo'), 'tests', 'legacy_tests', 'data', job[1])
        raw = open(path, 'rb').read()
        try:
            text = raw.decode('utf-8')
        except UnicodeDecodeError:
            text = None
        CAPI = (('compose_all', yaml.compose_all),)
        if text is None:
            # binary corpus file (utf-16 etc.): byte-level edits
            for i in range(len(raw) + 1):
                if i % job[3] != job[2]:
                    continue
                for b in [None] + BYTES[:12]:
                    d = raw[:i] if b is None else raw[:i] + bytes([b]) + raw[i + 1:]
                    c = {'file': job[1], 'edit': ('subbyte', i, b), 'input': d}
                    if T.trace: T.begin(c)
                    run_input(T, 'corpus-edits', c, d, apis=CAPI)
        else:
            if text.startswith('\ufeff'):
                text = text[1:]
            for k, (ed, s) in enumerate(gen.edits1(text, SIGMA)):
                if k % job[3] != job[2]:
                    continue
                c = {'file': job[1], 'edit': ed, 'input': s}
                if T.trace: T.begin(c)
                run_input(T, 'corpus-edits', c, s, apis=CAPI)
        T.sample('corpus-edits', c)
    elif kind == 'longdigits':
        # digit runs beyond the interpreter's int<->str conversion limit (4300), wherever the scanner/resolver/constructor converts numbers
        for s_ in LONG_DIGIT_DOCS:
            c = {'input': s_}
            if T.trace: T.begin(c)
            run_input(T, 'long-digit-runs', c, s_)
            run_input(T, 'long-digit-runs', {'input': s_, 'via': 7}, s_, via=7)
        T.sample('long-digit-runs', {'input': s_[:40] + '...'})
    elif kind == 'unidigits':
        ch = UNI_CHARS[job[1]]
        for fr in UNI_FRAMES:
            for rep in (ch, ch * 2, '1' + ch, ch + '1'):
                doc = fr.replace('%s', rep).replace('%%', '%')
                c = {'input': doc}
                if T.trace: T.begin(c)
                run_input(T, 'unicode-lookalikes', c, doc)
        T.sample('unicode-lookalikes', {'input': doc})
    elif kind == 'backtrack':
        import signal, time
        u = BACKTRACK_UNITS[job[1]]
        old = signal.getsignal(signal.SIGALRM)
        try:
            for n in (24, 32, 48, 64, 200):
                for tail in BACKTRACK_TAILS:
                    for frame in ('%s', '- %s', 'k: %s', '[%s]', '"%s"', "!!int %s", '&a %s'):
                        doc = frame % (u * n + tail)
                        c = {'input': doc}
                        if T.trace: T.begin(c)
                        run_input(T, 'backtracking', c, doc, apis=APIS[2:])
        finally:
            signal.signal(signal.SIGALRM, old)
        T.sample('backtracking', {'input': doc})
    elif kind == 'repeat':
        _, k, np_ = job
        i = 0
        c = None
        for u in repeat_units():
            for fn, fr in REPEAT_FRAMES:
                i += 1
                if i % np_ != k:
                    continue
                # a unit that opens a flow collection nests instead of repeating: the scanner keeps one candidate simple key
                # per open flow level and looks at all of them for every token (slow, not endless), so those runs are shorter
                n = REPEAT_N if not ('[' in u or '{' in u) else 300
                doc = fr(u, n)
                c = {'input': doc if len(doc) < 200 else None, 'unit': u, 'frame': fn, 'n': n}
                if T.trace: T.begin(c)
                run_input(T, 'repetition', c, doc, seconds=60.0)
        T.sample('repetition', {'unit': c['unit'], 'frame': c['frame'], 'n': REPEAT_N})
    elif kind == 'nest':
        for n in (1, 2, 3, 10, 50, 100, 150):
            s = nest_family(job[1], n)
            c = {'family': job[1], 'n': n, 'input': s}
            if T.trace: T.begin(c)
            run_input(T, 'nesting', c, s)
        T.sample('nesting', c)
    else:
        raise ValueError(job)


def replay(sub, case, T):
    if sub == 'repetition' and case.get('input') is None:
        doc = dict(REPEAT_FRAMES)[case['frame']](case['unit'], case['n'])
        return run_input(T, sub, case, doc, seconds=60.0)
    run_input(T, sub, case, case['input'], via=case.get('via'))


def snippet(sub, case):
    return ('import yaml\nfor L in (yaml.Loader, yaml.CLoader):\n  for f in (yaml.scan, yaml.parse, yaml.compose_all):\n'
            '    try: list(f(%r, Loader=L))\n    except yaml.YAMLError: pass\n' % (case['input'],))


def selftest():
    assert _declen('ab')[0] == 2 and _declen(codecs.BOM_UTF16_LE + b'a\0')[0] == 3
    assert len(set(SIGMA)) == len(SIGMA) == 29 and len(set(BYTES)) == 25
