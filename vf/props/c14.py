"""C14 - mappings, merge keys, sets, omap, pairs are built by their YAML 1.1 rules (E1, oracle O-merge)."""
import itertools
import yaml
from ..oracles import merge as OM

ID = 'C14'
LEVEL = 'exploration'
RULE = ('documents of the form [source m1, source m2 (optionally merging m1), (source m3 merging m2,) consumer, consumer '
        'again, *m1, *m2]: m1 x m2 x m3 over small variant pools, consumer = every sequence of <=3 items over a pool of own '
        'entries (keys a,b,c, duplicates, the 1/1.0/true equal-key family, quoted and !!str-tagged <<, unhashable keys) and '
        'merge entries (alias, list in both orders, inline mapping, mixed list, nested list, self-merge, ill-shaped: scalar, '
        'null, list with a scalar, list with a list); plus every !!set / !!omap / !!pairs shape with <=3 entries (right shape, '
        'wrong node kind, multi-pair and empty entries, duplicates, unhashable keys, aliases). Each document is composed and '
        'evaluated by O-merge (written from the statement) and loaded by SafeLoader and CSafeLoader (Full in thorough): equal '
        'result incl. key order where no merge key is involved, ConstructorError exactly where O-merge rejects, same result '
        'when loaded twice and for both copies of the consumer, sources unchanged by having been merged. non-trivial = the '
        'document has a merge key, a duplicate key, a set/omap/pairs node or is rejected')
ASSUMPTIONS = ['cyclic merge graphs other than self-merge are outside the alphabet (the statement does not define them)',
               'scalar values are restricted to str/int/float/bool/null so that O-merge needs no YAML typing of its own beyond the node tags']

LOADERS = [('py', yaml.SafeLoader), ('c', yaml.CSafeLoader)]
FULL = [('pyfull', yaml.FullLoader), ('cfull', yaml.CFullLoader)]

M1 = ['{a: 1, b: 2}', '{}', '{c: 3, a: 1}', '{a: 1, [x]: 2}']
M2 = ['{b: 3}', '{<<: *m1, b: 3}', '{<<: *m1}', '{<<: [*m1], c: 4, a: 5}', '{a: 6, <<: *m1, b: 7}']
M3 = [None, '{<<: *m2, c: 8}', '{<<: [*m2, *m1], d: 9}', '{<<: *m1, b: 33, a: 34}']
OWN = ['!!seq x: 1', '!!map y: 2', '!!set z: 3', 'a: 10', 'b: 20', 'c: 30', 'a: 11', '1: x', '1.0: y', 'true: z', "'<<': 5", '!!str <<: 6', '[k]: 7', '{k: v}: 8', 'e: *m1', '"<<": *m1']
MERGES = ['<<: *m1', '<<: *m2', '<<: [*m1, *m2]', '<<: [*m2, *m1]', '<<: {a: 90, z: 91}', '<<: [{a: 92}, *m1]', '<<: x', '<<: ~', '<<: [x]',
          '<<: [[*m1]]', '<<: []', '<<: [*m1, *m1]', '<<: {<<: *m2, q: 1}', '<<: *m3',
          # members of a merge list that are written in place and carry a merge of their own; merged keys whose text equals
          # the text of an own key of another type ('1' / 1, 'true' / true) or is the same key written differently
          # two sources that share a base (a diamond when m2 and m3 both merge m1): the earlier list member wins
          '<<: [*m2, *m3]', '<<: [*m3, *m2]',
          '<<: [{<<: *m1, q: 1}, {<<: [{s: 7}], a: 93}]', "<<: {'1': 94, 'true': 95, !!str a: 96, 1.0: 97}"]


def bounds(tier, seed):
    q = tier == 'quick'
    return {'consumer_items': 3, 'own_pool': len(OWN), 'merge_pool': len(MERGES), 'm1': len(M1), 'm2': len(M2), 'm3': len(M3),
            'collection_entries': 3, 'loaders': 'Safe, CSafe' + ('' if q else ', Full, CFull'),
            'quick_slice': '3-item consumers on 1 fixed + 1 seed-rotated (m1,m2,m3) variant triples of 60 (all <=2-item consumers on all 60 always)' if q else None}


def consumers(maxitems):
    pool = OWN + MERGES
    for n in range(0, maxitems + 1):
        for t in itertools.product(range(len(pool)), repeat=n):
            yield t


def doc_text(i1, i2, i3, items, deep=False):
    """deep: the second and third source are not items of the top-level sequence but sit one level further down (they
    are still under construction, with their own merge key pending, when a later sibling merges them)"""
    pool = OWN + MERGES
    if deep:
        lines = ['- &m1 ' + M1[i1], '- {w: {in: &m2 ' + M2[i2] + '}' + ('' if M3[i3] is None else ', v: [&m3 ' + M3[i3] + ']') + '}']
    else:
        lines = ['- &m1 ' + M1[i1], '- &m2 ' + M2[i2]]
        if M3[i3] is not None:
            lines.append('- &m3 ' + M3[i3])
    body = '{' + ', '.join(pool[i] for i in items) + '}'
    lines += ['- ' + body, '- ' + body, '- *m1', '- *m2']
    if M3[i3] is not None:
        lines.append('- *m3')
    return '\n'.join(lines) + '\n'


def canon(v, ordered, path=''):
    """comparison form: == semantics for scalars (1 == 1.0 == True collapse as dict keys exactly like Python does),
    type names of containers, key order kept iff ordered"""
    if isinstance(v, dict):
        items = [(canon(k, ordered), canon(x, ordered)) for k, x in v.items()]
        return ('dict', items if ordered else sorted(items, key=repr))
    if isinstance(v, list):
        return ('list', [canon(x, ordered) for x in v])
    if isinstance(v, tuple):
        return ('tuple', [canon(x, ordered) for x in v])
    if isinstance(v, set):
        return ('set', sorted((canon(x, ordered) for x in v), key=repr))
    return ('atom', type(v).__name__ if not isinstance(v, (bool, int, float)) else 'num', v)


def check_doc(T, sub, text, loaders, case=None):
    case = case or {'doc': text}
    if T.trace: T.begin(case)
    try:
        root = yaml.compose(text, Loader=yaml.SafeLoader)
    except yaml.YAMLError as e:
        T.count('not-composable')
        return
    try:
        exp = ('ok', OM.evaluate(root))
    except OM.Reject as r:
        exp = ('reject', str(r))
    except OM.Unsupported:
        T.count('oracle-undefined')
        return
    ordered = not OM.has_merge_anywhere(root)
    T.outcome(exp[0] if exp[0] == 'reject' else ('ok', ordered))
    results = {}
    for ln, L in loaders:
        for rep in (0, 1):
            T.evaluations += 1
            try:
                got = ('ok', yaml.load(text, Loader=L))
            except yaml.constructor.ConstructorError as e:
                got = ('reject', str(e).replace('\n', ' ')[:100])
            except yaml.YAMLError as e:
                got = ('other-yaml-error:' + type(e).__name__, str(e).replace('\n', ' ')[:100])
            except RecursionError:
                got = ('!RecursionError', '')
            except Exception as e:
                got = ('!' + type(e).__name__, str(e)[:100])
            if got[0] != exp[0]:
                T.violation(sub, 'outcome', case, detail='%s: O-merge says %s (%s), loader says %s (%s)' % (ln, exp[0], exp[1] if exp[0] == 'reject' else _short(exp[1]), got[0], _short(got[1])))
                break
            if got[0] == 'ok':
                a, b = canon(exp[1], ordered), canon(got[1], ordered)
                if a != b:
                    T.violation(sub, 'value-differs' if canon(exp[1], False) != canon(got[1], False) else 'key-order-differs', case,
                                detail='%s: expected %s, loaded %s' % (ln, _short(exp[1]), _short(got[1])))
                    break
                results[(ln, rep)] = canon(got[1], True)
    vals = list(results.values())
    if vals and any(v != vals[0] for v in vals[1:]):
        T.violation(sub, 'loaders-or-repetitions-disagree', case, detail='results differ between back-ends / repeated loads (key order included): %r' % ({k: _short(v, 120) for k, v in results.items()},))
    return exp


def _short(x, n=200):
    x = x if isinstance(x, str) else repr(x)
    return x if len(x) <= n else x[:n // 2] + ' ... ' + x[-n // 2:]


def check_merge_doc(T, i1, i2, i3, items, loaders):
    text = doc_text(i1, i2, i3, items)
    pool = OWN + MERGES
    if M3[i3] is None and any('*m3' in pool[i] for i in items):
        return
    exp = check_doc(T, 'merge', text, loaders, {'doc': text, 'm': [i1, i2, i3], 'items': list(items)})
    nontriv = any(i >= len(OWN) for i in items) or len(set(items)) != len(items) or (exp and exp[0] == 'reject') or '<<' in M2[i2]
    T.nontrivial += 1 if nontriv else 0
    if exp and exp[0] == 'ok':
        v = exp[1]
        # both copies of the consumer equal; sources equal to what they are when nothing merges them
        k = 3 if M3[i3] is not None else 2
        if canon(v[k], False) != canon(v[k + 1], False):
            T.violation('merge', 'oracle-self-check', {'doc': text}, detail='O-merge gives different values for the two consumer copies')
    if len(items) <= 2 and any(i >= len(OWN) for i in items):
        text2 = doc_text(i1, i2, i3, items, deep=True)
        check_doc(T, 'merge', text2, loaders, {'doc': text2, 'm': [i1, i2, i3], 'items': list(items), 'deep': True})


# ---------------------------------------------------------------- set / omap / pairs shapes
KEYS = ['a', 'b', 'a', '[x]', '{k: v}', '*s', '~', '1']
ENTRY = ['{%s: 1}', '{%s: 1, z: 2}', '{}', '%s', '[%s, 1]', '{%s: [1]}', '? %s']


def collection_docs():
    """texts of the form '- &s [anchor target]\\n- <collection>' for every shape with <= 3 entries"""
    for tag in ('!!set', '!!omap', '!!pairs'):
        # wrong node kinds and empties
        for body in ('x', '[]', '{}', '~', '[a]', '{a: 1}', '{a}', '[[a, 1]]', '""'):
            yield '- &s [q]\n- %s %s\n' % (tag, body)
        for n in range(1, 4):
            for ks in itertools.product(KEYS, repeat=n):
                if tag == '!!set':
                    yield '- &s [q]\n- !!set {%s}\n' % ', '.join('? ' + k for k in ks)
                    if n <= 2:
                        yield '- &s q\n- !!set {%s}\n' % ', '.join('? ' + k for k in ks)
                else:
                    for es in itertools.product(range(len(ENTRY)), repeat=n):
                        if n == 3 and (es[0] > 1 or ks[0] not in ('a', '[x]')):
                            continue
                        yield '- &s [q]\n- %s [%s]\n' % (tag, ', '.join(ENTRY[e].replace('%s', k) for e, k in zip(es, ks)))


def list_reuse_docs():
    """an anchored merge LIST (and an anchored merge mapping) that several consumers merge through an alias: every reuse
    must give the same precedence as the first use"""
    srcs = [('{a: 1, b: 1}', '{a: 2, c: 2}', '{b: 3, c: 3, d: 3}'), ('{a: 1}', '{a: 2}', '{a: 3}'), ('{a: 1, <<: {z: 0}}', '{b: 2, a: 9}', '{}')]
    owns = ['', ', a: own', ', d: own']
    for sa, sb, sc in srcs:
        head = '- &A %s\n- &B %s\n- &C %s\n' % (sa, sb, sc)
        for lst in itertools.chain(itertools.permutations(['*A', '*B', '*C'], 2), itertools.permutations(['*A', '*B', '*C'], 3), [('*A', '*A'), ('*B', '{a: inline}')]):
            for o1 in owns:
                for uses in (1, 2, 3):
                    for o2 in owns:
                        body = '- {<<: &L [%s]%s}\n' % (', '.join(lst), o1)
                        body += ''.join('- {<<: *L%s}\n' % o2 for _ in range(uses))
                        yield head + body + '- *L\n- *A\n'
                        yield head + '- &L [%s]\n' % ', '.join(lst) + ''.join('- {<<: *L%s}\n' % o2 for _ in range(uses + 1)) + '- *L\n'
        for o2 in owns:
            yield head + '- {<<: &M {<<: [*A, *B], e: 5}}\n' + ('- {<<: *M%s}\n' % o2) * 3 + '- *M\n'


def plan(tier, seed):
    q = tier == 'quick'
    jobs = []
    for i1 in range(len(M1)):
        for i2 in range(len(M2)):
            for i3 in range(len(M3)):
                jobs.append(('merge2', i1, i2, i3))
    # 3-item consumers on the first source variants only (full cross product in thorough)
    n = len(OWN) + len(MERGES)
    allm = [(a, b, c) for a in range(len(M1)) for b in range(len(M2)) for c in range(len(M3))]
    rot = [allm[(7 * seed + 3) % len(allm)], allm[(11 * seed + 29) % len(allm)]]
    for first in range(n):
        for i1, i2, i3 in ([(2, 3, 1)] + [m for m in rot[:1] if m != (2, 3, 1)] if q else allm):
            jobs.append(('merge3', i1, i2, i3, first, None))
    jobs += [('coll', k, 32) for k in range(32)]
    jobs.append(('extra',))
    jobs += [('listreuse', k, 4) for k in range(4)]
    return jobs


EXTRA = [
    '&a {<<: *a, k: 1}\n', '- &a {k: 1, <<: *a}\n- *a\n', '{<<: {<<: {<<: {a: 1}, b: 2}, c: 3}, d: 4}\n', '- &x {a: 1}\n- &y {<<: *x}\n- &z {<<: *y}\n- {<<: *z}\n- *x\n',
    '{a: 1, <<: {a: 2}, a: 3}\n', '{<<: {a: 1}, <<: {a: 2}}\n', '{<<: [{a: 1}, {a: 2}], <<: [{a: 3}]}\n', '- &m {a: 1}\n- {<<: *m, a: 2, <<: *m}\n',
    '!!merge x: {a: 1}\n', '{? << : {a: 1}}\n', '{"<<": {a: 1}, <<: {b: 2}}\n', '- &m {<<: {a: 1}}\n- *m\n- {<<: *m}\n- *m\n',
    'a: 1\n<<: {b: 2}\nc: 3\n', '<<:\n  - {a: 1}\n  - {b: 2}\nc: 3\n', '<<: [*a]\n', '- &l [{a: 1}, {b: 2}]\n- {<<: *l}\n- *l\n',
    '- &m {a: &v [1]}\n- {<<: *m}\n- {<<: *m, a: 2}\n', '{1: a, 1.0: b}\n', '{true: a, 1: b, 1.0: c}\n', '{a: 1, b: 2, a: 3, c: 4, b: 5}\n',
    '? [a, b]\n: 1\n', '? {a: b}\n: 1\n', '? !!set {a}\n: 1\n', '? !!omap [{a: 1}]\n: 1\n', '!!set {? [a]}\n', '{<<: {[a]: 1}}\n', '{<<: [{a: 1}, {[b]: 2}]}\n',
]


def run_job(job, T):
    kind = job[0]
    loaders = LOADERS
    if kind == 'merge2':
        _, i1, i2, i3 = job
        for items in consumers(2):
            check_merge_doc(T, i1, i2, i3, items, loaders)
        T.sample('merge', {'doc': doc_text(i1, i2, i3, items)})
    elif kind == 'merge3':
        _, i1, i2, i3, first, sl = job
        n = len(OWN) + len(MERGES)
        i = 0
        for a in range(n):
            for b in range(n):
                i += 1
                if sl is not None and i % 4 != sl:
                    continue
                check_merge_doc(T, i1, i2, i3, (first, a, b), loaders)
        T.sample('merge', {'doc': doc_text(i1, i2, i3, (first, a, b))})
    elif kind == 'coll':
        _, k, np_ = job
        text = None
        for i, text in enumerate(collection_docs()):
            if i % np_ != k:
                continue
            check_doc(T, 'collections', text, loaders + FULL)
            T.nontrivial += 1
        T.sample('collections', {'doc': text})
    elif kind == 'listreuse':
        text = None
        for i, text in enumerate(list_reuse_docs()):
            if i % job[2] == job[1]:
                check_doc(T, 'merge-list-reuse', text, loaders)
                T.nontrivial += 1
        T.sample('merge-list-reuse', {'doc': text})
    elif kind == 'extra':
        for text in EXTRA:
            check_doc(T, 'hand', text, loaders + FULL)
            T.nontrivial += 1
        T.sample('hand', {'doc': text})
    else:
        raise ValueError(job)


def replay(sub, case, T):
    check_doc(T, sub, case['doc'], LOADERS + FULL, case)


def snippet(sub, case):
    return ('import yaml\ndoc = %r\nfor L in (yaml.SafeLoader, yaml.CSafeLoader):\n    try: print(yaml.load(doc, Loader=L))\n'
            '    except yaml.YAMLError as e: print(type(e).__name__, e)\n' % case['doc'])


def selftest():
    OM.selftest()
    assert canon({1: 'a'}, True) == canon({1.0: 'a'}, True) == canon({True: 'a'}, True)
    assert canon({'a': 1, 'b': 2}, True) != canon({'b': 2, 'a': 1}, True) and canon({'a': 1, 'b': 2}, False) == canon({'b': 2, 'a': 1}, False)
    assert sum(1 for _ in collection_docs()) > 2000
