"""C06 tier 2: every dumper output (both back-ends) is read identically by both loaders."""


def run(job, T, compare_text):
    T.count('dumpers_tier_pending')
