"""C06 tier 2: every dumper output (both back-ends, all option sets within the bound) is read identically by both loaders."""
import itertools
import yaml
from .. import universe as U

DUMPERS = (('py', yaml.SafeDumper), ('c', yaml.CSafeDumper), ('pyfull', yaml.Dumper), ('cfull', yaml.CDumper))


def values(tier):
    q = tier == 'quick'
    for s in U.strings(U.STR_SIGMA, 1 if q else 2):
        yield ('str', s), (lambda s=s: s), 'str'
        yield ('strc', s), (lambda s=s: dict(U.place_string(s))['composite']), 'str'
    for s in U.strings(U.STR_CORE, 2, 2) if q else U.strings(U.STR_CORE, 3, 3):
        yield ('str', s), (lambda s=s: s), 'str'
        yield ('strc', s), (lambda s=s: dict(U.place_string(s))['composite']), 'str'
    for s in U.lookalikes()[::4 if q else 1]:
        yield ('look', s), (lambda s=s: [s, {s: s}]), 'str'
    for s in U.fold_words(3 if q else 4):
        yield ('fold', s), (lambda s=s: s), 'fold'
    for name, mk in U.containers():
        yield ('cont', name), mk, 'cont'
    for i, v in enumerate(U.LEAVES):
        yield ('leaf', i), (lambda v=v: [v, {'k': v}]), 'cont'
    yield ('tuple',), (lambda: {'t': (1, 2), 'c': 1 + 2j}), 'full'


def opts_for(cls, tier):
    from .c02 import STR_OPTS
    if cls == 'str':
        return STR_OPTS
    if cls == 'fold':
        return [{'default_style': '>', 'width': w} for w in (3, 5, 10)] + [{'width': 5}, {'default_style': '|'}, {'default_style': "'", 'width': 3}]
    return list(U.option_sets(1 if tier == 'quick' else 2))


def run(job, T, compare_text):
    _, k, np_, tier = job
    seen = set()
    for i, (name, mk, cls) in enumerate(values(tier)):
        if i % np_ != k:
            continue
        for o in opts_for(cls, tier):
            for dn, Dm in DUMPERS:
                if cls != 'full' and dn.endswith('full') and cls != 'cont':
                    continue
                try:
                    out = yaml.dump(mk(), Dumper=Dm, **o)
                except Exception as e:
                    T.count('dump_raised')     # C02 / C05 territory
                    continue
                if out in seen:
                    continue
                seen.add(out)
                c = {'input': out, 'from': [dn, list(name) if isinstance(name, tuple) else name, o]}
                if T.trace: T.begin(c)
                compare_text(T, 'dumper-output', c, out, deep=True)
        T.sample('dumper-output', c)
