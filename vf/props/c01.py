"""C01 - safe loading is confined to plain data, for every document (E1 + monitors)."""
import sys
import yaml
from .. import secgen as G, secmon

ID = 'C01'
LEVEL = 'exploration'
RULE = ('documents ctx[TAG KIND]: TAG over the 12 core tags, merge/value/yaml, the 12 exact python/* value tags, 16 odd forms '
        '(local, verbatim URI, truncated / re-cased / %-escaped python tags) and the 5 python/* prefix tags x NAMES, where NAMES = '
        'every module.attr of every module imported in the process (tens of thousands) + canary targets + bare builtins + '
        'missing / importable-but-unimported modules, plus every tag and multi-constructor prefix registered on any live '
        'subclass of BaseConstructor; KIND over 10 node shapes (empty/non-empty scalar, sequence, mapping, the long '
        'args/kwds/state/listitems/dictitems form, a state with dunder keys); ctx over 16 contexts (root, sequence item, '
        'mapping value and key, set member, omap/pairs value and entry, anchored+aliased, merge source, merge list, nested, '
        'second document, deep); x the six safe entry points (SafeLoader, CSafeLoader, BaseLoader, CBaseLoader, safe_load, '
        'safe_load_all). Full product for the structural tags and canary names, all module names x 5 prefixes x {scalar, seq} '
        'x {root, map-key} (quick: a seed slice of 1/8). Every load runs under monitors: exception class, type walk of the '
        'result, canary events, import/exec/open/os/subprocess audit events, growth of sys.modules, and (structural + canary '
        'sub-space) a profile hook that reports any Python call outside lib/yaml and the stdlib files a core-tag corpus uses '
        'and any C call of __import__/eval/exec/compile/open/os.*; Safe loaders must answer a non-core tag with '
        'ConstructorError. non-trivial = the document carries a tag outside the core set')
ASSUMPTIONS = ['Base loaders ignore tags by design (everything is str/list/dict): the rejection clause applies to the Safe loaders, confinement to all six',
               "the non-specific tag '!' is not a tag outside the core set (it requests plain resolution)",
               'the allow-list of stdlib files for the profile hook is learned from a corpus that uses core tags only, in the same process']

ENTRY = [('SafeLoader', 'safe', lambda d: yaml.load(d, Loader=yaml.SafeLoader)), ('CSafeLoader', 'safe', lambda d: yaml.load(d, Loader=yaml.CSafeLoader)),
         ('BaseLoader', 'base', lambda d: yaml.load(d, Loader=yaml.BaseLoader)), ('CBaseLoader', 'base', lambda d: yaml.load(d, Loader=yaml.CBaseLoader)),
         ('safe_load', 'safe', lambda d: yaml.safe_load(d)), ('safe_load_all', 'safe-all', lambda d: list(yaml.safe_load_all(d)))]
MON = None
NAMES = None
CORE_TAGS = set('!!' + t for t in G.CORE) | {'!'}
SPECIAL_TAGS = set('!!' + t for t in G.SPECIAL)
CONTEXTS = [c for c in G.CONTEXTS]


def bounds(tier, seed):
    q = tier == 'quick'
    return {'structural_tags': len(G.structural_tags()), 'kinds': len(G.KINDS), 'contexts': len(CONTEXTS), 'typed_parent_contexts': len(G.TYPED_CONTEXTS), 'entry_points': 6,
            'canary_names': len(G.CANARY_NAMES), 'module_names': 'all of sys.modules x dir() (count in coverage.counters.module_names)',
            'module_name_slice': 'index % 8 == seed % 8' if q else 'all'}


# typed scalars of extreme magnitude: the converters must answer with a value or a YAML error, quickly
MAG_UNITS = ['1', '9', '0', '1_', '1:3', ':59', '1:', '0x1', 'f', '0b1', '07', '1.', '.1', '1e', 'e1', '5e3', '2001-01-01 00:00:00.1', 'aGVsbG8=', 'QQ==', '=', '_', '-1', '+1:0', '0.', '00:']
MAG_FRAMES = ['%s', '%s.', '%s.5', '-%s', '0x%s', '0b%s', '0%s', '1e%s', '1e+%s', '1e-%s', '.%s', '%s:30', '%s:30.5', '2001-01-01 00:00:00.%s', '2001-01-01 00:00:00 +%s', '2001-01-01T1:1:1-%s:00',
              '!!int %s', '!!float %s', '!!float %s:1.', '!!timestamp 2001-01-01 0:0:0.%s', '!!binary %s', '!!bool %s', '!!null %s', '!!int "-%s"', '!!float "+%s.e9"']


class _Slow(Exception):
    pass


def _alarm(signum, frame):
    raise _Slow()


def _sandbox():
    """if the tree under test does call what a document names, let it happen in an empty scratch directory with no stdin"""
    import os, tempfile
    try:
        d = '/var/tmp/vf-sbx-%d' % os.getppid()        # removed by the supervisor (vf/main.py) when the run ends
        os.makedirs(d, exist_ok=True)
        os.chdir(d)
        fd = os.open(os.devnull, os.O_RDONLY)
        os.dup2(fd, 0)
    except OSError:
        pass


class _DocTimeout(BaseException):
    pass


def _doc_alarm(signum, frame):
    raise _DocTimeout()


CUSTOM = []


def customise():
    """what applications legitimately do: subclasses of the shipped loaders with their own constructors, multi-constructors
    and resolvers (registered in both orders), module-level yaml.add_* and a YAMLObject class.  None of it may become
    visible through the six safe entry points; every tag registered here is enumerated by the 'registered' job."""
    import vf_canary
    if CUSTOM:
        return

    def call_it(loader, node):
        return vf_canary.f()

    def call_multi(loader, suffix, node):
        return vf_canary.f(suffix)
    for i, Base in enumerate((yaml.SafeLoader, yaml.CSafeLoader, yaml.BaseLoader, yaml.FullLoader, yaml.Loader)):
        A = type('CustomA%d' % i, (Base,), {})
        A.add_multi_constructor('!ca%d:' % i, call_multi)          # multi first, then exact
        A.add_constructor('!pa%d' % i, call_it)
        B = type('CustomB%d' % i, (Base,), {})
        B.add_constructor('!pb%d' % i, call_it)                    # exact first, then multi
        B.add_multi_constructor('!cb%d:' % i, call_multi)
        B.add_implicit_resolver('!pb%d' % i, __import__('re').compile(r'^zz%d$' % i), ['z'])
        C = type('CustomC%d' % i, (A,), {})
        C.add_constructor('!pc%d' % i, call_it)
        C.add_multi_constructor(None, call_multi) if i == 0 else None
        CUSTOM.extend([A, B, C])
    yaml.add_constructor('!modlevel', call_it)
    yaml.add_multi_constructor('!modmulti:', call_multi)

    class YObj(yaml.YAMLObject):
        yaml_tag = '!yobj'

        def __init__(self):
            vf_canary.f()
    CUSTOM.append(YObj)


def worker_init():
    global MON, NAMES
    import vf_canary
    customise()
    _sandbox()
    import signal
    signal.signal(signal.SIGALRM, _doc_alarm)
    MON = secmon.Monitor(harness_files=[__file__])
    # warm every lazy import / compiled pattern and learn the benign stdlib call set from core-tag documents only
    corpus = []
    for t in G.CORE:
        for _, k in G.KINDS[:7]:
            for c in ('root', 'map-key', 'aliased', 'merge', 'omap-entry', 'set-member', 'second-doc'):
                corpus.append(G.in_context(c, '!!%s %s' % (t, k)))
    corpus += ['2001-12-14t21:59:43.10-05:00', '2001-12-14 21:59:43.10 +5', '!!binary "aGVsbG8="', '!!binary |\n  aGVsbG8=\n', '{a: 1, <<: {b: 2}}', '[1, 1.5, 0x1f, 1:30, .inf, ~, yes]',
               '!!set {a, b}', '!!omap [{a: 1}]', '!!pairs [{a: 1}]', '&a [*a]', '? [a]\n: b', '"\\u00e9"', "!!int 'x'", '!!timestamp x', '!!float x', '!!bool x', 'a: b: c', '[', '*u',
               '!!python/name:os.system x', '!foo bar', '%TAG !e! tag:e,2000:\n--- !e!x y']

    def run():
        for d in corpus:
            for _, _, fn in ENTRY:
                try:
                    fn(d)
                except yaml.YAMLError as e:
                    str(e)
                except Exception:
                    pass          # the warm-up must never fail: whatever the tree does is judged by the armed runs
    MON.learn(run)
    NAMES = G.module_names()


def check_doc(T, sub, case, doc, tag_kind, profile, prime=()):
    """tag_kind: 'core' | 'special' | 'noncore'.  prime: more trusting loaders that read the same document first (monitors off):
    the safe loaders must behave the same from that non-initial state (shared caches, leaked registrations)"""
    _prime(doc, prime)
    for en, fam, fn in ENTRY:
        T.evaluations += 1
        if T.trace: T.begin(case)
        import signal
        signal.setitimer(signal.ITIMER_REAL, 10.0)      # a document that makes the loader block (input(), sleep, a lock) is a finding, not a stuck check
        MON.arm(profile)
        try:
            try:
                with secmon.guard():
                    res = ('ok', fn(doc))
            except yaml.YAMLError as e:
                res = ('yamlerror', type(e).__name__)
            except BaseException as e:
                res = ('exc', type(e).__name__, str(e)[:120])
        finally:
            signal.setitimer(signal.ITIMER_REAL, 0)
            ev = MON.disarm()
        if ev:
            T.violation(sub, 'side-effect:' + ev[0][0], case, detail='%s on %r: %r' % (en, doc, ev[:4]))
        if res[0] == 'exc':
            T.violation(sub, 'non-yaml-exception:' + res[1], case, detail='%s on %r raised %s(%s)' % (en, doc, res[1], res[2]))
            continue
        if res[0] == 'ok':
            bad = G.walk_types(res[1])
            if bad:
                T.violation(sub, 'non-plain-object', case, detail='%s on %r returned %s' % (en, doc, bad))
            if fam != 'base' and tag_kind == 'noncore':
                T.violation(sub, 'non-core-tag-accepted', case, detail='%s loaded %r as %.80r instead of raising ConstructorError' % (en, doc, res[1]))
            if fam == 'base' and G.walk_types(res[1], tuple_any=False) is None and not _only_str(res[1]):
                T.violation(sub, 'base-loader-built-typed-data', case, detail='%s on %r returned %.80r' % (en, doc, res[1]))
        elif fam != 'base' and tag_kind == 'noncore' and res[1] != 'ConstructorError':
            T.count('noncore-rejected-by-' + res[1])
        T.outcome((fam, res[0], res[1] if res[0] != 'ok' else type(res[1]).__name__))
    T.nontrivial += 1 if tag_kind != 'core' else 0


PRIME_FULL = (lambda d: yaml.load(d, Loader=yaml.FullLoader),)
PRIME_UNSAFE = (lambda d: yaml.load(d, Loader=yaml.UnsafeLoader), lambda d: yaml.load(d, Loader=yaml.FullLoader), lambda d: yaml.load(d, Loader=yaml.CUnsafeLoader))


def _prime(doc, prime):
    for fn in prime:
        try:
            with secmon.guard():
                fn(doc)
        except Exception:
            pass


def _is_canary(name):
    return name == 'vf_canary' or name.startswith('vf_canary.')


def _only_str(o):
    seen = set()
    st = [o]
    while st:
        x = st.pop()
        if id(x) in seen:
            continue
        seen.add(id(x))
        if isinstance(x, list):
            st.extend(x)
        elif isinstance(x, dict):
            st.extend(x.keys()); st.extend(x.values())
        elif not isinstance(x, str):
            return False
    return True


def kind_of_tag(tag):
    if tag in CORE_TAGS:
        return 'core'
    if tag in SPECIAL_TAGS:
        return 'special'
    return 'noncore'


def plan(tier, seed):
    q = tier == 'quick'
    jobs = [('struct', i) for i in range(len(G.structural_tags()))]
    jobs += [('canary', i, k, 8) for i in range(len(G.PY_PREFIX)) for k in range(8)]
    jobs += [('registered', k, 8) for k in range(8)]
    jobs += [('magnitude', k) for k in range(len(MAG_UNITS))]
    NS = 64
    for k in range(NS):
        if not q or k % 8 == seed % 8:
            jobs.append(('names', k, NS, q))
    return jobs


def run_job(job, T):
    kind = job[0]
    if kind == 'struct':
        tag = G.structural_tags()[job[1]]
        tk = kind_of_tag(tag)
        for kn, ktext in G.KINDS:
            for c in CONTEXTS + (G.TYPED_CONTEXTS if kn in G.TYPED_KINDS else []):
                doc = G.in_context(c, '%s %s' % (tag, ktext))
                check_doc(T, 'structural', {'doc': doc, 'tag': tag, 'kind': kn, 'context': c}, doc, tk, profile=True, prime=PRIME_FULL)
        T.sample('structural', {'doc': doc})
    elif kind == 'canary':
        prefix = G.PY_PREFIX[job[1]]
        doc = None
        for ni, name in enumerate(G.CANARY_NAMES):
            if ni % job[3] != job[2]:
                continue
            tag = G.tag_text(prefix + name)
            for kn, ktext in G.KINDS:
                for c in (CONTEXTS + (G.TYPED_CONTEXTS if kn in G.TYPED_KINDS[::2] else []) if name.startswith('vf_canary') else ('root', 'map-key', 'aliased', 'merge', 'set-member')):
                    doc = G.in_context(c, '%s %s' % (tag, ktext))
                    check_doc(T, 'canary-names', {'doc': doc, 'tag': tag, 'kind': kn, 'context': c, 'primed': 'unsafe' if _is_canary(name) else 'full'}, doc, 'noncore', profile=True,
                              prime=PRIME_UNSAFE if _is_canary(name) else PRIME_FULL)
        T.sample('canary-names', {'doc': doc})
    elif kind == 'registered':
        n = 0
        for ti, (tag, multi) in enumerate(G.registered_tags(yaml.constructor.BaseConstructor)):
            if ti % job[2] != job[1]:
                continue
            full = tag + ('vf_canary.f' if multi else '')
            short = '!!' + full[len(G.Y):] if full.startswith(G.Y) else '!<%s>' % full
            tk = kind_of_tag(short)
            for kn, ktext in G.KINDS:
                for c in ('root', 'map-key', 'aliased', 'merge', 'omap-entry'):
                    doc = G.in_context(c, '!<%s> %s' % (full, ktext))
                    check_doc(T, 'registered-tags', {'doc': doc, 'tag': short, 'kind': kn, 'context': c}, doc, tk, profile=True, prime=PRIME_FULL)
                    n += 1
        for text in [] if job[1] else ['zz0', 'zz1', 'zz3', '- zz2\n- !pa0 x\n- !ca0:s y\n', '!yobj {}', '!modlevel x', '!modmulti:s x', '!anything-at-all x', '!pc0 x']:
            check_doc(T, 'registered-tags', {'doc': text, 'tag': 'custom', 'kind': 'probe', 'context': 'root'}, text, 'noncore' if '!' in text else 'core', profile=True, prime=PRIME_FULL)
        T.count('registered_tags_enumerated', len(G.registered_tags(yaml.constructor.BaseConstructor)))
        T.sample('registered-tags', {'doc': doc})
    elif kind == 'magnitude':
        import signal
        u = MAG_UNITS[job[1]]
        old = signal.signal(signal.SIGALRM, _alarm)
        doc = None
        try:
            for n in (40, 180, 400, 1500, 4400):
                for fr in MAG_FRAMES:
                    doc = fr % (u * n)
                    case = {'doc': doc if len(doc) < 300 else None, 'unit': u, 'n': n, 'frame': fr, 'tag': 'core', 'kind': 'magnitude', 'context': 'root'}
                    signal.setitimer(signal.ITIMER_REAL, 10.0)
                    try:
                        check_doc(T, 'magnitude', case, doc, 'core', profile=False)
                    except _Slow:
                        T.violation('magnitude', 'hang', case, detail='a %d-character scalar (%r x %d in %r) took more than 10 s to load' % (len(doc), u, n, fr))
                    finally:
                        signal.setitimer(signal.ITIMER_REAL, 0)
        finally:
            signal.signal(signal.SIGALRM, old)
        T.sample('magnitude', {'doc': doc[:60]})
    elif kind == 'names':
        _, k, ns, quick_ = job
        T.count('module_names', len(NAMES) if k == 0 or True else 0)
        kinds = [G.KINDS[0], G.KINDS[3]] if quick_ else G.KINDS
        doc = None
        for i, name in enumerate(NAMES):
            if i % ns != k:
                continue
            for prefix in G.PY_PREFIX:
                tag = G.tag_text(prefix + name)
                for kn, ktext in kinds:
                    for c in (('root', 'map-key') if quick_ else ('root', 'map-key', 'aliased', 'merge-overridden')):
                        doc = G.in_context(c, '%s %s' % (tag, ktext))
                        check_doc(T, 'module-names', {'doc': doc, 'tag': tag, 'kind': kn, 'context': c}, doc, 'noncore', profile=False, prime=PRIME_FULL)
        if doc:
            T.sample('module-names', {'doc': doc})
    else:
        raise ValueError(job)


def finalize(agg, tier, seed):
    n = agg.counters.get('module_names', 0)
    jobs = sum(1 for _ in plan(tier, seed) if _[0] == 'names')
    return {'module_names_in_process': n // max(1, jobs)}


def replay(sub, case, T):
    if sub == 'magnitude' and case.get('doc') is None:
        case = dict(case)
        case['doc'] = case['frame'] % (case['unit'] * case['n'])
    check_doc(T, sub, case, case['doc'], kind_of_tag(case.get('tag', '')) if case.get('tag') in CORE_TAGS | SPECIAL_TAGS else 'noncore', profile=True,
              prime=PRIME_UNSAFE if case.get('primed') == 'unsafe' else PRIME_FULL)


def snippet(sub, case):
    return ('import yaml\ndoc = %r\nfor L in (yaml.SafeLoader, yaml.CSafeLoader, yaml.BaseLoader, yaml.CBaseLoader):\n'
            '    try: print(L.__name__, repr(yaml.load(doc, Loader=L)))\n    except yaml.YAMLError as e: print(L.__name__, type(e).__name__)\n' % case['doc'])


def selftest():
    import datetime
    assert G.walk_types([1, 'a', {'k': {1, 2}}, [('a', 1)], datetime.date(2001, 1, 1)]) is None
    assert G.walk_types((1, 2)) and G.walk_types([(1, 2, 3)]) and G.walk_types([1, {'k': object()}]) and G.walk_types({'k': (1, 2)})
    assert G.in_context('map-key', '!!x y') == '? !!x y\n: v\n'
    assert G.tag_text('python/name:os.system') == '!<tag:yaml.org,2002:python/name:os.system>'
