"""C06 - LibYAML back-end is a drop-in replacement (differential, E1)."""
import itertools, os
import yaml
from .. import gen
from ..oracles import graph

ID = 'C06'
LEVEL = 'exploration'
RULE = ('differential exploration Python vs LibYAML on (1) every document of a portable-grammar generator (bounded '
        'trees, all scalar styles/headers, comments, anchors, tags, directives, multi-document, six break kinds), '
        '(2) every output of both dumpers over a value/option universe, (3) every string <=L over a 21-symbol alphabet; '
        'compared at events, node graphs (with sharing) and objects for Base/Safe/Full/Unsafe pairs; error class '
        'compared on undefined alias / duplicate anchor / unknown tag / second document. non-trivial = both back-ends '
        'accept and the document has >=1 collection, anchor, tag, non-plain scalar or >1 document, or exactly one side rejects')
ASSUMPTIONS = ['LibYAML binary as linked from yaml/_yaml.c; marks are not compared (C09 covers positions)',
               'accept/reject disagreements that fall in a lexical class listed in known_findings.json are reported as KNOWN-FINDING']

# 21 symbols: no TAB, no '!', no BOM (the property's portable subset excludes them)
SIGMA = ['a', ' ', '\n', '-', ':', '[', ']', '{', '}', ',', '?', '#', '&', '*', '|', '>', "'", '"', '%', '.', '0']

PAIRS = (('Base', yaml.BaseLoader, yaml.CBaseLoader), ('Safe', yaml.SafeLoader, yaml.CSafeLoader),
         ('Full', yaml.FullLoader, yaml.CFullLoader), ('Unsafe', yaml.UnsafeLoader, yaml.CUnsafeLoader))


def bounds(tier, seed):
    q = tier == 'quick'
    return {'raw_len': 4 if q else 5, 'raw_len5_seed_slice': q, 'portable': 'see gen_portable; quick = core + seed slice'}


def ev_tuple(e):
    n = type(e).__name__
    if n == 'ScalarEvent':
        return (n, e.anchor, e.tag, tuple(e.implicit), e.value, e.style or None)   # '' and None both mean plain
    if n in ('SequenceStartEvent', 'MappingStartEvent'):
        return (n, e.anchor, e.tag, e.implicit, bool(e.flow_style))   # None and False both mean block style
    if n == 'AliasEvent':
        return (n, e.anchor)
    if n == 'DocumentStartEvent':
        return (n, e.explicit, e.version, tuple(sorted(e.tags.items())) if e.tags else None)
    if n == 'DocumentEndEvent':
        return (n, e.explicit)
    return (n,)


def node_canon(nodes):
    ids = {}

    def walk(nd):
        if id(nd) in ids:
            return ('ref', ids[id(nd)])
        ids[id(nd)] = len(ids)
        n = type(nd).__name__
        if n == 'ScalarNode':
            return ('S', nd.tag, nd.value, nd.style or None)
        if n == 'SequenceNode':
            return ('Q', nd.tag, bool(nd.flow_style), tuple(walk(c) for c in nd.value))
        return ('M', nd.tag, bool(nd.flow_style), tuple((walk(k), walk(v)) for k, v in nd.value))
    return tuple(walk(nd) for nd in nodes)


def run(fn):
    try:
        return ('ok', fn())
    except yaml.YAMLError as e:
        return ('err', type(e).__name__, e)
    except RecursionError:
        return ('recursion',)
    except Exception as e:       # C03/C01 territory, but a divergence nevertheless
        return ('exc', type(e).__name__, str(e)[:100])


def observe_events(text, L):
    return run(lambda: [ev_tuple(e) for e in yaml.parse(text, Loader=L)])


def observe_nodes(text, L):
    return run(lambda: node_canon(list(yaml.compose_all(text, Loader=L))))


def observe_objects(text, L):
    return run(lambda: graph.canon(list(yaml.load_all(text, Loader=L))))


def _cmp(T, sub, case, what, a, b, errclass=False):
    """a = python side, b = C side"""
    if a[0] == 'recursion' or b[0] == 'recursion':
        return 'skip'
    if a[0] == 'ok' and b[0] == 'ok':
        if a[1] != b[1]:
            T.violation(sub, what + '-differ', case, detail='py=%r  c=%r' % (_firstdiff(a[1], b[1])))
            return 'differ'
        return 'same'
    if a[0] != 'ok' and b[0] != 'ok':
        if errclass and a[1] != b[1]:
            T.violation(sub, what + '-error-class', case, detail='py raises %s, c raises %s' % (a[1], b[1]))
        T.count('both_reject')
        return 'both-err'
    T.violation(sub, what + '-accept-reject', case, detail='py=%s c=%s' % (_brief(a), _brief(b)))
    return 'accept-reject'


def _brief(r):
    if r[0] == 'ok':
        return 'accepts'
    return 'raises %s(%s)' % (r[1], str(r[2]).replace('\n', ' | ')[:400])


def _firstdiff(x, y):
    if isinstance(x, (list, tuple)) and isinstance(y, (list, tuple)):
        for i, (p, q) in enumerate(zip(x, y)):
            if p != q:
                return (i, p), (i, q)
        return ('len', len(x)), ('len', len(y))
    return x, y


def compare_text(T, sub, case, text, deep=True, errclass=False):
    T.evaluations += 1
    e1 = observe_events(text, yaml.Loader)
    e2 = observe_events(text, yaml.CLoader)
    r = _cmp(T, sub, case, 'events', e1, e2, errclass)
    if r == 'accept-reject':
        T.nontrivial += 1
        return
    if r == 'same' and (len(e1[1]) > 5 or any(ev[0] == 'ScalarEvent' and (ev[5] or ev[1] or ev[2]) for ev in e1[1])):
        T.nontrivial += 1
    n1 = observe_nodes(text, yaml.Loader)
    n2 = observe_nodes(text, yaml.CLoader)
    r2 = _cmp(T, sub, case, 'nodes', n1, n2, errclass)
    if r2 in ('differ', 'accept-reject'):
        return
    pairs = PAIRS if deep else PAIRS[1:2]
    for name, PL, CL in pairs:
        o1 = observe_objects(text, PL)
        o2 = observe_objects(text, CL)
        _cmp(T, sub, case, 'objects-' + name, o1, o2, errclass)


# ---------------------------------------------------------------- tier 1: portable grammar
BREAKS = {'LF': '\n', 'CRLF': '\r\n', 'CR': '\r', 'NEL': '\x85', 'LS': '\u2028', 'PS': '\u2029'}

# scalar renderings: (text-with-\n-breaks, needs_own_lines) ; {I} = current indentation
BLOCK_HEADERS = [h + c + i for h in '|>' for c in ('', '-', '+') for i in ('', '1', '2')]
BLOCK_LINES = ['x', 'x y', ' x', '  x', '', 'x ', '# x', '- x', 'x: y']


def block_scalars(maxlines):
    """every block scalar: header x content lines (each line is one of BLOCK_LINES), explicit-indent aware"""
    for hdr in BLOCK_HEADERS:
        for n in range(0, maxlines + 1):
            for lines in itertools.product(range(len(BLOCK_LINES)), repeat=n):
                yield hdr, lines


def render_block(hdr, lines, indent, trailing_comment=False):
    ind = hdr[-1]
    # with an explicit indentation indicator k, content indentation is parent indent + k
    pad = ' ' * (indent + (int(ind) if ind.isdigit() else 2))
    out = [hdr + (' # c' if trailing_comment else '')]
    for i in lines:
        l = BLOCK_LINES[i]
        out.append((pad + l) if l != '' else '')
    return '\n'.join(out) + '\n'


FLOW_SCALARS = ['a', 'a b', "'a'", "'a''b'", "'a b'", '"a"', '"a\\nb"', '"a\\x41\\u00e9"', '"a b"', "''", '""', '~', '1', '1.5', 'true',
                '2001-01-01', '0x1F', '<<', '=', 'a#b', 'a:b', '-a', '?a', "'a\n  b'", '"a\n  b"', '"a\\\n  b"', 'a\n  b', "'a\n\n  b'",
                '"a \n\n  b"', 'null', '"\\u263A"', '\u00e9', '"\\_\\N\\L\\P\\e\\0"', '\U0001F600']
TAGS = ['', '!!str ', '!!int ', '!local ', '!<tag:x.org,2000:t> ', '!e!t ', '! ']
ANCH = ['', '&a ']


def portable_docs(level):
    """yield (descr, text) for every document of the bounded portable grammar; text uses \n as break"""
    # (1) one scalar in each context
    ctxs = [('root', '%s\n', 0), ('seq', '- %s\n', 0), ('map', 'k: %s\n', 0), ('key', '? %s\n: v\n', 0),
            ('fseq', '[%s, z]\n', None), ('fmap', '{k: %s}\n', None), ('fkey', '{%s: v}\n', None), ('seqseq', '- - %s\n  - z\n', 2),
            ('mapmap', 'k:\n  j: %s\n', 2), ('expl', '--- %s\n...\n', 0)]
    for name, fr, ind in ctxs:
        for sc in FLOW_SCALARS:
            if '\n' in sc and name in ('key', 'fkey', 'root'):
                continue
            body = sc.replace('\n  ', '\n' + ' ' * ((ind or 0) + 2))
            for tag in TAGS:
                for an in ANCH:
                    if tag == '!e!t ':
                        continue
                    if (tag or an) and sc not in ('a', "'a'", '"a"', '~', '1', ''):
                        continue
                    yield ('scalar', name, sc, tag, an), fr % (an + tag + body)
        if ind is not None and name not in ('key',):
            for hdr, lines in block_scalars(2 if level == 0 else 3):
                for tc in (False, True):
                    if tc and lines and level == 0:
                        continue
                    t = fr % render_block(hdr, lines, ind, tc).rstrip('\n') if name != 'expl' else '--- ' + render_block(hdr, lines, ind, tc) + '...\n'
                    yield ('block', name, hdr, lines, tc), t
    # (2) collection shapes (block/flow) with comments, anchors/aliases, tags
    shapes = ['- a\n- b\n', 'a: 1\nb: 2\n', '- a: 1\n  b: 2\n- c\n', 'a:\n- 1\n- 2\n', 'a:\n  - 1\n  - 2\nb: 3\n', '[a, b]\n', '{a: 1, b: 2}\n',
              '[a, [b, c], {d: e}]\n', '{a: [1, 2], b: {c: d}}\n', '- [a, b]\n- {c: d}\n', 'a: [1,\n  2]\n', '? a\n: b\n? c\n', '? [a, b]\n: c\n',
              '- &x a\n- *x\n', '&m {a: 1}\n', '- &s [1, 2]\n- *s\n- *s\n', 'a: &v 1\nb: *v\n', '&r [*r]\n', '- &x {k: *x}\n',
              '!!set {a, b}\n', '!!omap [a: 1, b: 2]\n', '!!map {a: 1}\n', '!!seq [1]\n', '!t {a: 1}\n', '!!python/tuple [1, 2]\n',
              '- !!str a\n- !!int 1\n', '[]\n', '{}\n', '- []\n- {}\n', 'a: {}\nb: []\n', '- \n- a\n', 'a:\nb:\n', '{a, b}\n', '[a: 1, b: 2]\n',
              '<<: {a: 1}\nb: 2\n', '- &m {a: 1}\n- <<: *m\n  b: 2\n', '- 1 # c\n# c\n- 2\n', 'a: 1 # c\n\n\nb: 2\n', '# c\na: 1\n', '[a, # c\n b]\n',
              'a: |\n  x\nb: >\n  y\n  z\n', '- |\n x\n- >-\n y\n', "a: 'b\n  c'\n", 'a: b\n  c\n', '"a": \'b\'\n', '? |\n  x\n: y\n',
              'a: !!binary YQ==\n', 'd: 2001-01-01\nt: 2001-01-01 10:00:00\n', 'x: 0o7\ny: 1_000\nz: 190:20:30\n', 'a: .inf\nb: -.inf\nc: .nan\n']
    docpre = ['', '---\n', '--- # c\n', '%YAML 1.1\n---\n', '%TAG !e! tag:e.org,2000:\n---\n', '%YAML 1.1\n%TAG ! tag:x,\n---\n']
    docpost = ['', '...\n', '... # c\n']
    for s in shapes:
        for pre in docpre:
            for post in docpost:
                yield ('shape', s, pre, post), pre + s + post
    # (3) multi-document streams
    roots = ['a\n', '- a\n', 'a: 1\n', '[a]\n', "'a'\n", '|\n x\n', '&a a\n', '!!str a\n', '']
    seps = ['---\n', '...\n---\n', '--- ', '...\n%YAML 1.1\n---\n']
    for r1, r2 in itertools.product(roots, repeat=2):
        for sp in seps:
            if sp.endswith(' ') and (r2 == '' or r2[0] in '-a'):
                if r2 == '' or r2.startswith('- ') or r2.startswith('a:'):
                    continue
            yield ('multi', r1, sp, r2), r1 + sp + r2
            for r3 in roots[:4] if level else roots[:1]:
                yield ('multi3', r1, sp, r2, r3), r1 + sp + r2 + '---\n' + r3
    # (3b) blank / comment / indented-blank lines between a document's last line and the next marker, and multi-line scalars
    # whose continuation lines meet markers, escapes and breaks
    gaps = ['\n', '\n\n', '\n\n\n', '\n \n', '\n# c\n', '\n\n# c\n\n']
    lasts = ['a', 'a b', 'a\n b', '- a', 'k: a', "'a'", '"a"', '[a]', 'k:\n  - a', '- a\n  b']
    marks = ['--- b\n', '...\n', '...\n--- b\n', '---\nb\n', '--- |\n b\n']
    for la in lasts:
        for g in gaps:
            for mk in marks:
                yield ('gap', la, g, mk), la + g + mk
                yield ('gap2', la, g, mk), '--- ' + la + g + mk if not la.startswith(('- ', 'k:')) else '---\n' + la + g + mk
    for dq in ['"a\\\n  b"', '"a \\\n  b"', '"a\\\n\\ b"', '"a\n\n  b"', '"a\n  b\n\n  c"', '"\\\n"', '"a\\\n\n b"', "'a\n\n  b'", "'a\n  b'", 'a\n  b\n\n  c', '"a\\\n  \\\n  b"']:
        for fr in ('%s\n', 'k: %s\n', '- %s\n', '[%s]\n', '--- %s\n...\n'):
            yield ('multiline', dq, fr), fr % dq
    # (3c) implicit keys around the 1024-character simple-key limit, and empty entries of indentless sequences
    for n in (126, 127, 128, 129, 1021, 1022, 1023, 1024, 1025, 1026):
        for fr in ('%s: v\n', '"%s": v\n', '{%s: v}\n', '- %s: v\n', '%s   : v\n', '? %s\n: v\n', 'k: {%s: v}\n'):
            pad = n - (2 if fr.startswith('"') else 0) - (3 if '   :' in fr else 0)
            yield ('longkey', n, fr), fr % ('k' * pad)
    for t in ['a:\n- x\n-\nb: 1\n', 'a:\n-\n- x\nb: 1\n', 'a:\n-\nb:\n-\n', '? a\n:\n- x\n-\n? b\n', 'a:\n- x\n-\n', '- a:\n  - x\n  -\n  b: 1\n', 'a:\n- - x\n  -\n-\nb: 2\n',
              'a:\n- &x\n- !!str\n-\nb: *x\n', 'a:\n-\n\n# c\nb: 1\n', 'a:\n- x\n- \nb: 1\n...\n']:
        yield ('indentless', t), t
    # (4) malformed classes named by the property
    bad = [('undef-alias', '*u\n'), ('undef-alias', '- *u\n'), ('undef-alias', 'a: *u\n'), ('undef-alias', '[&a x, *b]\n'),
           ('undef-alias', '- &a x\n--- \n- *a\n'), ('dup-anchor', '- &a x\n- &a y\n'), ('dup-anchor', '&a [&a x]\n'),
           ('dup-anchor', '{&a k: &a v}\n'), ('dup-anchor', '- &a [1]\n- &a {b: 2}\n'), ('unknown-tag', '!foo bar\n'),
           ('unknown-tag', '- !!frobnicate 1\n'), ('unknown-tag', '!<tag:x.org,2000:y> {a: 1}\n'), ('unknown-tag', 'a: !e [1]\n'),
           ('second-doc', 'a\n---\nb\n'), ('second-doc', '--- a\n--- b\n'), ('second-doc', '[a]\n...\n---\n{b: c}\n'),
           ('second-doc', '--- |\n x\n--- >\n y\n')]
    for cls, t in bad:
        yield ('malformed', cls), t


def with_break(text, brk):
    return text.replace('\n', BREAKS[brk]) if brk != 'LF' else text


def check_malformed(T, case, cls, text):
    """same exception class on both sides for the four malformed classes"""
    T.evaluations += 1
    T.nontrivial += 1
    for name, PL, CL in PAIRS:
        if cls == 'second-doc':
            a = run(lambda: yaml.load(text, Loader=PL)); b = run(lambda: yaml.load(text, Loader=CL))
            a2 = run(lambda: yaml.compose(text, Loader=PL)); b2 = run(lambda: yaml.compose(text, Loader=CL))
            res = [(a, b, 'load'), (a2, b2, 'compose')]
        else:
            res = [(run(lambda: list(yaml.load_all(text, Loader=PL))), run(lambda: list(yaml.load_all(text, Loader=CL))), 'load_all')]
        for a, b, api in res:
            if a[0] == 'ok' and b[0] == 'ok':
                if name == 'Base' and cls == 'unknown-tag':
                    continue
                if cls == 'unknown-tag' and name in ('Full', 'Unsafe') and False:
                    continue
                T.violation('malformed', 'both-accept', case, detail='%s %s/%s accepted by both back-ends' % (cls, name, api))
            elif a[0] != b[0] or (a[0] != 'ok' and a[1] != b[1]):
                T.violation('malformed', 'error-class', case, detail='%s %s/%s: py %s, c %s' % (cls, name, api, _brief(a), _brief(b)))
            else:
                expect = {'undef-alias': 'ComposerError', 'dup-anchor': 'ComposerError', 'unknown-tag': 'ConstructorError',
                          'second-doc': 'ComposerError'}[cls]
                if a[0] != 'ok' and a[1] != expect:
                    T.violation('malformed', 'unexpected-class', case, detail='%s %s/%s raises %s (both), expected %s' % (cls, name, api, a[1], expect))


# tag tokens: every prefix form x every suffix of <= n pieces (URI escapes complete, multi-byte, truncated and malformed, in any
# position), in four frames; the scanner decodes escapes and re-joins the pieces, LibYAML does the same in C
TAG_PREFIXES = ['!', '!!', '!e!', '!<', '!<tag:yaml.org,2002:']
TAG_PIECES = ['s', 'tr', '%74', '%C3%A9', '%', '%7', '%zz', '-', ',', '\xe9']
TAG_FRAMES = ['%s x\n', '- %s x\n- y\n', '[%s x, y]\n', '{%s k: v}\n']


def tag_texts(n):
    import itertools
    for pre in TAG_PREFIXES:
        for L in range(0, n + 1):
            for tup in itertools.product(TAG_PIECES, repeat=L):
                tag = pre + ''.join(tup) + ('>' if pre.startswith('!<') else '')
                for fr in TAG_FRAMES:
                    yield ('%TAG !e! tag:yaml.org,2002:\n--- ' if pre == '!e!' and fr == TAG_FRAMES[0] else
                           '%TAG !e! tag:yaml.org,2002:\n---\n' if pre == '!e!' else '') + fr % tag


def plan(tier, seed):
    q = tier == 'quick'
    jobs = []
    NP = 64
    jobs += [('portable', 0 if q else 1, k, NP, (seed % 6) if q else None) for k in range(NP)]
    jobs += gen.string_jobs('raw', len(SIGMA), 4 if q else 5, plen=2)
    if q:
        allj = gen.string_jobs('raw', len(SIGMA), 5, plen=2, minlen=5)
        jobs += [j for i, j in enumerate(allj) if i % 16 == seed % 16]
    jobs += [('dumpers', k, 32, tier) for k in range(32)]
    jobs += [('tagtext', k, 16, 3 if q else 4) for k in range(16)]
    return jobs


def run_job(job, T):
    kind = job[0]
    if kind == 'raw':
        _, n, prefix = job
        deep = n <= 4
        for s in gen.iter_strings(SIGMA, n, prefix):
            if T.trace: T.begin({'input': s})
            compare_text(T, 'raw', {'input': s}, s, deep=deep)
        T.sample('raw', {'input': s})
    elif kind == 'portable':
        _, level, k, np_, brk_only = job
        brks = list(BREAKS)
        for i, (descr, text) in enumerate(portable_docs(level)):
            if i % np_ != k:
                continue
            if descr[0] == 'malformed':
                c = {'class': descr[1], 'input': text}
                if T.trace: T.begin(c)
                check_malformed(T, c, descr[1], text)
                T.sample('malformed', c)
                continue
            for bi, b in enumerate(brks):
                if brk_only is not None and b != 'LF' and bi != 1 + (brk_only + i) % 5:
                    continue
                t = with_break(text, b)
                c = {'input': t, 'break': b}
                if T.trace: T.begin(c)
                compare_text(T, 'portable', c, t, deep=True)
            T.sample('portable', c)
    elif kind == 'tagtext':
        _, k, np_, n = job
        c = None
        for i, t in enumerate(tag_texts(n)):
            if i % np_ != k:
                continue
            c = {'input': t}
            if T.trace: T.begin(c)
            compare_text(T, 'tagtext', c, t, deep=True)
        if c: T.sample('tagtext', c)
    elif kind == 'dumpers':
        from . import c06_dumpers
        c06_dumpers.run(job, T, compare_text)
    else:
        raise ValueError(job)


def replay(sub, case, T):
    if sub == 'malformed':
        check_malformed(T, case, case['class'], case['input'])
    else:
        compare_text(T, sub, case, case['input'], deep=True)


def snippet(sub, case):
    return ('import yaml\nt = %r\nfor L in (yaml.Loader, yaml.CLoader):\n    try: print(L.__name__, list(yaml.parse(t, Loader=L)))\n'
            '    except yaml.YAMLError as e: print(L.__name__, type(e).__name__, e)\n' % (case['input'],))


def selftest():
    graph.selftest()
    docs = list(portable_docs(0))
    assert len(docs) > 2000 and len(set(t for _, t in docs)) > 1500
    assert render_block('|', (0,), 0) == '|\n  x\n' and render_block('>1', (0, 4, 1), 2) == '>1\n   x\n\n   x y\n'
