"""C08 - YAML 1.1 typing of plain scalars, on load and on dump (E1 against O-ref11)."""
import itertools, datetime, math
import yaml
from yaml.nodes import ScalarNode
from .. import gen
from ..oracles import ref11
from ..oracles.ref11 import NO_VALUE

ID = 'C08'
LEVEL = 'exploration'
RULE = ('every string <=L over a 24-symbol numeric alphabet, every case pattern and 1-edit neighbour of every keyword, '
        'every resolver first character x 2-character tail, the product of timestamp components, and int/float/date/datetime '
        'value grids, every timestamp fraction of 1..6 digits on load and every microsecond value on dump; each text is classified by the loader resolver, the dumper resolver and the C loader and constructed by '
        'SafeLoader and CSafeLoader, and compared with an independent hand-written YAML 1.1 recogniser/evaluator (O-ref11); '
        'dump side: safe_load(safe_dump(x)) for every text and value. non-trivial = O-ref11 classifies the text as non-str '
        '(or it is a value-grid member)')
ASSUMPTIONS = ['O-ref11 readings D1-D5 (documented in vf/oracles/ref11.py): y/n and signed leading-dot floats accept either classification if load, dump and value are mutually consistent']

SIGMA = list('012789+-_.:eExboafAF') + [' ', 'T', 't', 'Z']
KEYWORDS = ['yes', 'no', 'true', 'false', 'on', 'off', 'null', '~', '.inf', '.nan', '<<', '=', 'y', 'n']
EDIT_ALPHA = list('yYnNoOaA~.<=') + [' ', '-', '+', '0']
TAGOF = {'null': 'tag:yaml.org,2002:null', 'bool': 'tag:yaml.org,2002:bool', 'int': 'tag:yaml.org,2002:int',
         'float': 'tag:yaml.org,2002:float', 'timestamp': 'tag:yaml.org,2002:timestamp', 'merge': 'tag:yaml.org,2002:merge',
         'value': 'tag:yaml.org,2002:value', 'str': 'tag:yaml.org,2002:str'}
KINDOF = {v: k for k, v in TAGOF.items()}

_resolvers = None


def resolvers():
    global _resolvers
    if _resolvers is None:
        import io
        _resolvers = [('SafeLoader', yaml.SafeLoader('')), ('SafeDumper', yaml.SafeDumper(io.StringIO())),
                      ('CSafeLoader', yaml.CSafeLoader('')), ('CSafeDumper', yaml.CSafeDumper(io.StringIO()))]
    return _resolvers


def bounds(tier, seed):
    q = tier == 'quick'
    return {'string_len': 4 if q else 5, 'len5_seed_slice': q, 'keyword_edits': 1, 'timestamp_fractions': 'all 1 111 110 digit strings of length 1..6; all 10^6 microsecond values dumped', 'timestamp_product': 'full' if not q else 'seed-rotated slice of the zone/fraction axes + full core'}


def scans_as_plain(t, Loader):
    """does the text, as a whole document, scan as exactly one plain scalar whose value is t?"""
    try:
        toks = list(yaml.scan(t, Loader=Loader))
    except yaml.YAMLError:
        return False
    return (len(toks) == 3 and type(toks[1]).__name__ == 'ScalarToken' and toks[1].plain and toks[1].value == t)


def construct(t, tag, Loader):
    ld = Loader('')
    try:
        return ld.construct_document(ScalarNode(tag, t))
    finally:
        ld.dispose()


def check_text(T, sub, t, dump=True):
    case = {'text': t}
    T.evaluations += 1
    accept = ref11.classify(t)
    if accept != frozenset(['str']):
        T.nontrivial += 1
    if t in ('!', '&', '*'):
        # cannot occur as a plain scalar; the shipped '!!yaml' resolver entry exists "for documentation purposes"
        accept = frozenset(['str', 'tag:yaml.org,2002:yaml'])
    # L1: resolvers
    chosen = None
    for name, r in resolvers():
        tag = r.resolve(ScalarNode, t, (True, False))
        kind = KINDOF.get(tag, tag)
        if kind not in accept:
            T.violation(sub, 'classification', case, detail='%s resolves %r to %s, YAML 1.1 says %s' % (name, t, kind, '/'.join(sorted(accept))))
            return
        if chosen is None:
            chosen = kind
        elif kind != chosen:
            T.violation(sub, 'resolvers-disagree', case, detail='%s says %s, SafeLoader says %s' % (name, kind, chosen))
            return
        tag2 = r.resolve(ScalarNode, t, (False, True))
        if tag2 != TAGOF['str']:
            T.violation(sub, 'quoted-not-str', case, detail='%s resolves non-plain %r to %s' % (name, t, tag2))
            return
    # L2: construction ('<<' alone is a merge key, not a value; '!&*' cannot be plain)
    if chosen in ('merge', 'tag:yaml.org,2002:yaml'):
        return
    expected = ref11.value(t, chosen)
    form = (ref11.float_form(t) or [None])[0] if chosen == 'float' else None
    for name, Loader in (('SafeLoader', yaml.SafeLoader), ('CSafeLoader', yaml.CSafeLoader)):
        plain = scans_as_plain(t, Loader)
        try:
            if plain:
                got = yaml.load(t, Loader=Loader)
                if chosen == 'merge':
                    continue
            else:
                if chosen == 'merge':
                    continue
                got = construct(t, TAGOF[chosen], Loader)
            err = None
        except yaml.YAMLError as e:
            got, err = None, e
        except Exception as e:
            if expected is NO_VALUE:
                T.violation(sub, 'no-value-not-yaml-error', case, detail='%s: %r is a %s without a value; raised %s(%s) instead of a YAMLError'
                            % (name, t, chosen, type(e).__name__, e))
            else:
                T.violation(sub, 'construct-exception', case, detail='%s: %r (%s) raised %s(%s)' % (name, t, chosen, type(e).__name__, e))
            continue
        if expected is NO_VALUE:
            if err is None:
                T.violation(sub, 'no-value-accepted', case, detail='%s: %r is a %s that denotes no value but loads as %r' % (name, t, chosen, got))
            continue
        if err is not None:
            if chosen == 'value' or (plain is False and chosen == 'str'):
                continue
            T.violation(sub, 'load-rejected', case, detail='%s: %r (%s) rejected: %s' % (name, t, chosen, str(err).replace('\n', ' ')[:200]))
            continue
        if not ref11.values_equal(got, expected, chosen, form):
            T.violation(sub, 'value', case, detail='%s: %r (%s) loads as %r, YAML 1.1 value is %r' % (name, t, chosen, got, expected),
                        expected=repr(expected), observed=repr(got))
    # quoted / block renderings are always str
    if "'" not in t and '\n' not in t and '\\' not in t and '"' not in t:
        for q in ("'%s'", '"%s"'):
            for name, Loader in (('SafeLoader', yaml.SafeLoader), ('CSafeLoader', yaml.CSafeLoader)):
                try:
                    got = yaml.load(q % t, Loader=Loader)
                except yaml.YAMLError as e:
                    T.violation(sub, 'quoted-rejected', case, detail='%s rejects %r: %s' % (name, q % t, e))
                    continue
                if type(got) is not str or got != t:
                    T.violation(sub, 'quoted-not-str', case, detail='%s loads %r as %r' % (name, q % t, got))
    # L3: dump side: a str that looks like something else is written so that it reads back as the same str
    if dump:
        for dn, D in (('SafeDumper', yaml.SafeDumper), ('CSafeDumper', yaml.CSafeDumper)):
            for style in (None, "'", '"'):
                try:
                    out = yaml.dump(t, Dumper=D, default_style=style)
                    back = yaml.load(out, Loader=yaml.SafeLoader)
                except Exception as e:
                    T.violation(sub, 'dump-str-exception', case, detail='%s style=%r: %s(%s)' % (dn, style, type(e).__name__, str(e)[:150]))
                    continue
                if type(back) is not str or back != t:
                    T.violation(sub, 'dump-str-roundtrip', case, detail='%s style=%r wrote %r which reads back as %r' % (dn, style, out, back))
            # the same text as a str and as the value it looks like, side by side in one document and in one stream:
            # each occurrence is classified on its own
            if chosen not in ('str', 'value') and expected is not NO_VALUE:
                for mk in (lambda: [expected, t, expected], lambda: [t, expected, t], lambda: {'a': expected, 'b': t}):
                    w = mk()
                    try:
                        back = yaml.load(yaml.dump(w, Dumper=D), Loader=yaml.SafeLoader)
                        seq = list(back.values()) if isinstance(back, dict) else list(back)
                        backs = list(yaml.load_all(yaml.dump_all(list(w.values()) if isinstance(w, dict) else w, Dumper=D), Loader=yaml.SafeLoader))
                    except Exception as e:
                        T.violation(sub, 'dump-str-exception', case, detail='%s %r: %s(%s)' % (dn, w, type(e).__name__, str(e)[:150]))
                        continue
                    ws = list(w.values()) if isinstance(w, dict) else w
                    for how, bs in (('dump', seq), ('dump_all', backs)):
                        ok = len(bs) == len(ws) and all((type(b) is str and b == x) if type(x) is str else
                                                        (type(b) is not str and ref11.values_equal(b, x, chosen, form)) for x, b in zip(ws, bs))
                        if not ok:
                            T.violation(sub, 'dump-mixed-roundtrip', case, detail='%s %s of %r reads back as %r' % (dn, how, ws, bs))


def case_patterns(w):
    for bits in itertools.product((0, 1), repeat=len(w)):
        yield ''.join(c.upper() if b else c.lower() for c, b in zip(w, bits))


def ts_texts(part, nparts, slice_=None):
    years = ['0001', '2001', '9999', '0000']
    mds = ['1', '01', '12', '13', '00', '31', '99', '2', '30']
    seps = ['T', 't', ' ', '  ', '\t']
    hours = ['0', '00', '7', '23', '24', '99']
    mins = ['00', '59', '60']
    secs = ['00', '59', '60', '61']
    fracs = ['', '.', '.1', '.12', '.123', '.1234', '.12345', '.123456', '.1234567', '.000001']
    zones = ['', 'Z', ' Z', '+5', '+05', '+05:30', '-00:01', '+24:00', '-5', ' -05:00', '+23:59', '-23:59', '+00:00', '+99']
    i = 0
    for y in years:
        for mo in mds[:6]:
            for d in mds:
                i += 1
                if i % nparts != part:
                    continue
                yield '%s-%s-%s' % (y, mo, d)
                for sep in seps:
                    for h in hours:
                        base = '%s-%s-%s%s%s' % (y, mo, d, sep, h)
                        for mi in mins:
                            for s in secs:
                                for fi, f in enumerate(fracs):
                                    for zi, z in enumerate(zones):
                                        if slice_ is not None and (fi + zi + len(h) + len(sep)) % 12 != slice_ and not (fi == 0 and zi == 0):
                                            continue
                                        if y != '2001' and (fi > 2 or zi > 3):
                                            continue
                                        yield '%s:%s:%s%s%s' % (base, mi, s, f, z)


def number_texts():
    """generated members (and near misses) of the numeric productions: sign x [base prefix] x sexagesimal groups x fraction x exponent"""
    out = []
    signs = ['', '+', '-']
    heads = ['0', '1', '59', '60', '190', '1_0', '01']
    groups = ['0', '5', '30', '59', '60', '05', '7_']
    fracs = [None, '', '0', '15', '1_5', '5e3']
    for sg in signs:
        for h in heads:
            for g in [()] + [(a,) for a in groups] + [(a, b) for a in groups for b in groups]:
                for f in fracs:
                    out.append(sg + h + ''.join(':' + x for x in g) + ('' if f is None else '.' + f))
        for body in ['0x1F', '0x_1f', '0X1f', '0b101', '0b1_0', '0b2', '017', '018', '0o17', '0_7', '1e5', '1e+5', '1.5e+5', '1.5E-5', '1.5e5', '1_0.5_0e+1_0', '.5', '.5e+3', '._5', '.inf', '.Inf',
                     '.INF', '.iNF', '.nan', '.NaN', '.NAN', '1__0', '_1', '1_', '0.', '00', '0:0', '0:00:00.000', '1:2:3:4:5', '1:', ':1', '1::2', '1:2.3.4', '9:99']:
            out.append(sg + body)
    seen = set()
    return [t for t in out if not (t in seen or seen.add(t))]


def int_grid():
    vals = set([0, 10 ** 20, -10 ** 20])
    vals.update(range(-70, 71))
    for b in (2, 8, 10, 16, 60):
        for e in range(1, 12):
            for d in (-1, 0, 1):
                vals.add(b ** e + d); vals.add(-(b ** e + d))
    return sorted(vals)


def float_grid():
    vals = [0.0, -0.0, float('inf'), float('-inf'), float('nan'), 5e-324, 2.2250738585072014e-308, 1.7976931348623157e308]
    for e in range(-25, 26):
        for m in (1.0, 1.5, 1.2345678901234567, 9.999999999999999, 3.0, 0.1):
            vals.append(m * 10.0 ** e); vals.append(-m * 10.0 ** e)
    vals += [1e16, 1e17, 1e-5, 1e-4, 123456789012345680.0, 0.30000000000000004, 1 / 3, 2 / 3, 1e22, 1e23, 100.0, 1e15, 1e-7]
    return vals


def value_grid(part, nparts):
    D = datetime
    i = 0
    for v in int_grid():
        i += 1
        if i % nparts == part: yield v
    for v in float_grid():
        i += 1
        if i % nparts == part: yield v
    for y in (1, 2001, 9999):
        for day in (D.date(y, 1, 1), D.date(y, 12, 31), D.date(y, 2, 28), D.date(y, 10, 9)):
            i += 1
            if i % nparts == part: yield day
            for hms in ((0, 0, 0), (23, 59, 59), (1, 2, 3), (10, 0, 0)):
                for us in (0, 1, 10, 100000, 123456, 999999, 500):
                    for tz in (None, D.timezone.utc, D.timezone(D.timedelta(hours=5, minutes=30)), D.timezone(D.timedelta(minutes=-1)),
                               D.timezone(D.timedelta(hours=-12)), D.timezone(D.timedelta(hours=23, minutes=59)), D.timezone(D.timedelta(hours=-5)),
                               D.timezone(D.timedelta(hours=5, minutes=30, seconds=15)), D.timezone(-D.timedelta(seconds=1)), D.timezone(D.timedelta(minutes=19, seconds=32, microseconds=130000))):
                        i += 1
                        if i % nparts == part:
                            yield D.datetime(day.year, day.month, day.day, *hms, us, tzinfo=tz)
    for b in (True, False, None):
        i += 1
        if i % nparts == part: yield b


def check_value(T, v):
    case = {'value': repr(v)}
    T.evaluations += 1
    T.nontrivial += 1
    for dn, D in (('SafeDumper', yaml.SafeDumper), ('CSafeDumper', yaml.CSafeDumper)):
        for opts in ({}, {'default_flow_style': True}, {'canonical': True}, {'default_style': '"'}):
            for wrap in (lambda x: x, lambda x: [x], lambda x: {'k': x}):
                w = wrap(v)
                try:
                    out = yaml.dump(w, Dumper=D, **opts)
                except Exception as e:
                    T.violation('values', 'dump-exception', case, detail='%s %r: %s(%s)' % (dn, opts, type(e).__name__, e))
                    continue
                for ln, L in (('SafeLoader', yaml.SafeLoader), ('CSafeLoader', yaml.CSafeLoader)):
                    try:
                        back = yaml.load(out, Loader=L)
                    except Exception as e:
                        T.violation('values', 'load-exception', case, detail='%s %r wrote %r; %s raised %s(%s)' % (dn, opts, out, ln, type(e).__name__, str(e)[:150]))
                        continue
                    b = back if wrap(0) == 0 else (back[0] if isinstance(back, list) else back.get('k') if isinstance(back, dict) else back)
                    if not ref11.values_equal(b, v, 'x'):
                        T.violation('values', 'value-roundtrip', case, detail='%s %r wrote %r; %s reads %r' % (dn, opts, out, ln, b),
                                    expected=repr(v), observed=repr(b))


USEC_BLOCKS = 64


def check_usec(T, block):
    """every fraction of 1..6 digits (1 111 110 texts, split into 64 blocks): the timestamp '2001-12-14 21:59:43.<fraction>'
    must load with microsecond = the fraction read as a decimal fraction of a second (digit string padded to 6 places - no
    floating point involved); and every datetime with that microsecond value must dump to a text that loads back equal"""
    D = datetime
    fr = []
    for digits in range(1, 7):
        n = 10 ** digits
        per = -(-n // USEC_BLOCKS)
        fr += ['%0*d' % (digits, f) for f in range(block * per, min(n, (block + 1) * per))]
    doc = ''.join('- 2001-12-14 21:59:43.%s\n' % f for f in fr)
    want = [int(f.ljust(6, '0')) for f in fr]
    for ln, L in (('SafeLoader', yaml.SafeLoader), ('CSafeLoader', yaml.CSafeLoader)):
        T.evaluations += len(fr)
        T.nontrivial += len(fr)
        try:
            got = yaml.load(doc, Loader=L)
        except Exception as e:
            T.violation('fractions', 'load-exception', {'block': block, 'loader': ln}, detail='%s raised %s(%s) on a list of timestamps' % (ln, type(e).__name__, str(e)[:150]))
            continue
        for f, w, g in zip(fr, want, got):
            if type(g) is not D.datetime or g != D.datetime(2001, 12, 14, 21, 59, 43, w):
                T.violation('fractions', 'value', {'text': '2001-12-14 21:59:43.' + f}, detail='%s: fraction .%s loads as %r, expected microsecond=%d' % (ln, f, g, w))
    six = [w for f, w in zip(fr, want) if len(f) == 6]
    vals = [D.datetime(2001, 12, 14, 21, 59, 43, w) for w in six]
    for dn, Dm in (('SafeDumper', yaml.SafeDumper), ('CSafeDumper', yaml.CSafeDumper)):
        T.evaluations += len(vals)
        try:
            out = yaml.dump(vals, Dumper=Dm)
            back = yaml.load(out, Loader=yaml.SafeLoader if dn == 'SafeDumper' else yaml.CSafeLoader)
        except Exception as e:
            T.violation('fractions', 'dump-exception', {'block': block, 'dumper': dn}, detail='%s: %s(%s)' % (dn, type(e).__name__, str(e)[:150]))
            continue
        for v, b in zip(vals, back):
            if type(b) is not D.datetime or b != v:
                T.violation('fractions', 'value-roundtrip', {'value': repr(v)}, detail='%s wrote %r as part of a list; it reads back as %r' % (dn, v, b))
        if len(back) != len(vals):
            T.violation('fractions', 'value-roundtrip', {'block': block, 'dumper': dn}, detail='%d values written, %d read' % (len(vals), len(back)))


def plan(tier, seed):
    q = tier == 'quick'
    jobs = []
    jobs += [('usec', k) for k in range(USEC_BLOCKS)]
    jobs += [('ts', k, 36, (seed % 12) if q else None) for k in range(36)]
    jobs += gen.string_jobs('str', len(SIGMA), 4 if q else 5, plen=2)
    if q:
        allj = gen.string_jobs('str', len(SIGMA), 5, plen=2, minlen=5)
        jobs += [j for i, j in enumerate(allj) if i % 16 == seed % 16]
    jobs += [('kw', w) for w in KEYWORDS]
    jobs += [('first', k, 16) for k in range(16)]
    jobs += [('values', k, 32) for k in range(32)]
    jobs += [('numbers', k, 8) for k in range(8)]
    return jobs


def run_job(job, T):
    kind = job[0]
    if kind == 'str':
        _, n, prefix = job
        dump = n <= 4
        for s in gen.iter_strings(SIGMA, n, prefix):
            if T.trace: T.begin({'text': s})
            check_text(T, 'strings', s, dump=dump)
        T.sample('strings', {'text': s})
    elif kind == 'kw':
        seen = set()
        for w in case_patterns(job[1]):
            for ed, s in [(None, w)] + list(gen.edits1(w, EDIT_ALPHA)):
                if s in seen:
                    continue
                seen.add(s)
                if T.trace: T.begin({'text': s})
                check_text(T, 'keywords', s)
        T.sample('keywords', {'text': s})
    elif kind == 'first':
        firsts = sorted(set('yYnNtTfFoO-+0123456789.<~=!&*' + 'aZ _:,#[]{}|>\'"%@`'))
        tails = list('0123456789abcdefnNyYoOxX._:+-~ <=eE') + ['']
        for i, f in enumerate(firsts):
            if i % job[2] != job[1]:
                continue
            for a in tails:
                for b in tails:
                    s = f + a + b
                    check_text(T, 'first-chars', s)
        T.sample('first-chars', {'text': s})
    elif kind == 'ts':
        for s in ts_texts(job[1], job[2], job[3]):
            if T.trace: T.begin({'text': s})
            check_text(T, 'timestamps', s, dump=False)
        T.sample('timestamps', {'text': s})
    elif kind == 'numbers':
        for i, s in enumerate(number_texts()):
            if i % job[2] != job[1]:
                continue
            if T.trace: T.begin({'text': s})
            check_text(T, 'numbers', s)
        T.sample('numbers', {'text': s})
    elif kind == 'usec':
        check_usec(T, job[1])
        T.sample('fractions', {'block': job[1], 'of': USEC_BLOCKS})
    elif kind == 'values':
        for v in value_grid(job[1], job[2]):
            check_value(T, v)
        T.sample('values', {'value': repr(v)})
    else:
        raise ValueError(job)


def replay(sub, case, T):
    if 'block' in case:
        check_usec(T, case['block'])
    elif 'text' in case:
        check_text(T, sub, case['text'])
    else:
        v = eval(case['value'], {'datetime': datetime, 'inf': float('inf'), 'nan': float('nan')})
        check_value(T, v)


def selftest():
    ref11.selftest()
