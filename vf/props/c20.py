"""C20 - work grows linearly with the size of the input (E1 over a catalogue of size-parameterised families)."""
import datetime, itertools, sys
import yaml

ID = 'C20'
LEVEL = 'exploration'
RULE = ('a catalogue of size-parameterised families: (i) hand-written ones for every construct that grows by repetition - long '
        'scalars of every style, long escapes, many block / flow entries, many keys, many documents, many anchors and aliases, '
        'many merges, long and many comments, blank and space runs, long keys, complex keys, tags, typed scalars, long '
        'tag/anchor/directive text for loading; long strings per style with small width, many items / keys / documents / '
        'shared objects / distinct empty collections, bytes, floats, sets for dumping, also through loader / dumper subclasses '
        'with a wildcard implicit resolver; (ii) GENERATED ones: for every unit u of <=2 symbols over the indicator alphabet and '
        'every frame of {u^n, (u NL)^n, "- " u^n, "[" u^n, DQ u^n DQ, "k: " u^n, (u SP)^n}. Each family is measured at sizes n, 2n, '
        '4n (n = 1500, beyond the 128 / 1024 / 4096 thresholds) with the deterministic metric the property names: the number of '
        'call + c_call events seen by sys.setprofile during safe_load_all / safe_dump. Oracle: work(2n) <= 2.3 x work(n) and '
        'work(4n) <= 2.3 x work(2n) (linear gives 2.0, n log n about 2.2, quadratic 4). non-trivial = work(4n) > 1.5 x work(n), '
        'i.e. the family really scales (families that fail early have constant work)')
ASSUMPTIONS = ['no wall-clock is used anywhere; the metric is deterministic for a given tree',
               'nesting families are excluded (the property bounds nesting by the recursion limit); sizes are element counts, not depths']

N0 = 1500
TOL = 2.3
CORE = ['a', ' ', '\n', '-', ':', '[', ']', '{', '}', ',', '?', '#', '&', '*', '!', '|', '>', "'", '"', '%', '.', '\t', '\\', '0', '@']


def bounds(tier, seed):
    q = tier == 'quick'
    return {'n': N0, 'sizes': [N0, 2 * N0, 4 * N0], 'ratio_limit': TOL, 'generated_unit_len': 2 if q else '2 over 25 symbols, 3 over the 14-symbol core', 'generated_alphabet': 14 if q else len(CORE),
            'frames': 7, 'quick_slice': 'units over the full 25-symbol alphabet with index % 8 == seed % 8 in addition to all units over the 14-symbol core' if q else None}


class _Counter:
    __slots__ = ('n',)

    def __init__(self):
        self.n = 0

    def __call__(self, frame, event, arg):
        if event == 'call' or event == 'c_call':
            self.n += 1


def work(fn):
    c = _Counter()
    sys.setprofile(c)
    try:
        try:
            fn()
        except yaml.YAMLError:
            pass
        except RecursionError:
            return None
    finally:
        sys.setprofile(None)
    return c.n


class WildLoader(yaml.SafeLoader):
    pass


class WildDumper(yaml.SafeDumper):
    pass


import re as _re
WildLoader.add_implicit_resolver('!wild', _re.compile(r'^zzz$'), None)
WildDumper.add_implicit_resolver('!wild', _re.compile(r'^zzz$'), None)


def _load(text, Loader=yaml.SafeLoader):
    return lambda: list(yaml.load_all(text, Loader=Loader))


def load_families():
    F = {}
    F['plain-long'] = lambda n: 'a' * n
    F['plain-words'] = lambda n: 'ab ' * n
    F['plain-multiline'] = lambda n: 'k:\n' + ' ab\n' * n
    F['single-quoted'] = lambda n: "'" + 'a ' * n + "'"
    F['single-quoted-escapes'] = lambda n: "'" + "''" * n + "'"
    F['double-quoted'] = lambda n: '"' + 'a ' * n + '"'
    F['double-escapes'] = lambda n: '"' + '\\n' * n + '"'
    F['double-unicode-escapes'] = lambda n: '"' + '\\u00e9' * n + '"'
    F['double-multiline'] = lambda n: '"' + 'ab\n ' * n + '"'
    F['literal'] = lambda n: '|\n' + ' x\n' * n
    F['literal-blank-lines'] = lambda n: '|\n x\n' + '\n' * n + ' y\n'
    F['folded'] = lambda n: '>\n' + ' x y\n' * n
    F['block-seq'] = lambda n: '- a\n' * n
    F['block-map'] = lambda n: ''.join('k%d: v\n' % i for i in range(n))
    F['block-map-same-key'] = lambda n: 'k: v\n' * n
    F['flow-seq'] = lambda n: '[' + 'a, ' * n + ']'
    F['flow-map'] = lambda n: '{' + ''.join('k%d: v, ' % i for i in range(n)) + '}'
    F['flow-seq-multiline'] = lambda n: '[\n' + ' a,\n' * n + ']'
    F['documents'] = lambda n: '--- a\n' * n
    F['documents-end'] = lambda n: 'a\n...\n' * n
    F['documents-explicit-end'] = lambda n: '--- a\n...\n' * n
    F['documents-tag-directives'] = lambda n: ''.join('%%TAG !h%d! tag:e.com,%d:\n--- !h%d!t "v"\n' % (i, i, i) for i in range(n))
    F['documents-yaml-directives'] = lambda n: '%YAML 1.1\n--- "v"\n' * n
    F['anchors-aliases'] = lambda n: ''.join('- &a%d x\n- *a%d\n' % (i, i) for i in range(n))
    F['aliases-one-anchor'] = lambda n: '- &a [x]\n' + '- *a\n' * n
    F['merges'] = lambda n: '- &m {a: 1, b: 2}\n' + '- {<<: *m, c: 3}\n' * n
    F['merge-list'] = lambda n: '- &m {a: 1}\n- &l {b: 2}\n' + '- {<<: [*m, *l]}\n' * n
    F['comment-long'] = lambda n: '# ' + 'c' * n + '\na'
    F['comments-many'] = lambda n: '# c\n' * n + 'a'
    F['trailing-comments'] = lambda n: 'k: v # c\n' * n
    F['blank-run'] = lambda n: '\n' * n + 'a'
    F['space-run'] = lambda n: 'a:' + ' ' * n + 'b'
    F['trailing-spaces'] = lambda n: 'a: b' + ' ' * n + '\n'
    F['indent-spaces'] = lambda n: 'a:\n' + ' ' * 8 + 'b\n' + ('\n' + ' ' * 8) * n + '\n'
    F['quoted-key-long'] = lambda n: '? "' + 'k' * n + '"\n: v\n'
    F['complex-keys'] = lambda n: '? a\n: b\n' * n
    F['tags'] = lambda n: '- !!str a\n' * n
    F['verbatim-tags'] = lambda n: '- !<tag:yaml.org,2002:str> a\n' * n
    F['tag-long'] = lambda n: '!' + 'a' * n + ' x'
    F['anchor-long'] = lambda n: '&' + 'a' * n + ' x'
    F['directive-long'] = lambda n: '%TAG !e! tag:' + 'a' * n + '\n--- x'
    F['ints'] = lambda n: '- 12345\n' * n
    F['floats'] = lambda n: '- 1.5e3\n' * n
    F['sexagesimal'] = lambda n: '- 1:30:05\n' * n
    F['timestamps'] = lambda n: '- 2001-12-14 21:59:43.10 -5\n' * n
    F['bools-nulls'] = lambda n: '- yes\n- ~\n' * n
    F['binary'] = lambda n: '!!binary |\n' + ' aGVsbG8gd29ybGQh\n' * n
    F['int-long'] = lambda n: '1' * min(n, 4000)
    F['set'] = lambda n: '!!set\n' + ''.join('? k%d\n' % i for i in range(n))
    F['omap'] = lambda n: '!!omap\n' + ''.join('- k%d: v\n' % i for i in range(n))
    F['pairs'] = lambda n: '!!pairs\n' + '- k: v\n' * n
    F['seq-of-maps'] = lambda n: '- a: 1\n  b: 2\n' * n
    F['map-of-seqs'] = lambda n: ''.join('k%d:\n- 1\n- 2\n' % i for i in range(n))
    F['flow-in-block'] = lambda n: '- [a, {b: c}]\n' * n
    F['crlf-lines'] = lambda n: '- a\r\n' * n
    F['nel-lines'] = lambda n: '- a\x85' * n
    F['unicode-plain'] = lambda n: '\u00e9\u4e2d' * n
    F['tabs-after-colon'] = lambda n: 'a:' + '\t' * n + 'b'
    F['dashes'] = lambda n: '-' * n
    F['error-late'] = lambda n: '- a\n' * n + '- [\n'
    F['plain-colon-words'] = lambda n: 'a:b ' * n
    F['hash-words'] = lambda n: 'a#b ' * n
    F['merge-keys-interleaved'] = lambda n: '- &m {a: 1}\n- {' + ''.join('k%d: v, <<: *m, ' % i for i in range(n // 3)) + 'z: 0}\n'
    F['merge-keys-many-block'] = lambda n: 'base: &m {a: 1}\nuse:\n' + ''.join('  k%d: v\n  <<: *m\n' % i for i in range(n // 4))
    F['alias-square'] = lambda n: '- &a [' + '1, ' * n + '2]\n' + '- *a\n' * n
    F['alias-map-square'] = lambda n: 'base: &a {' + ''.join('k%d: 1, ' % i for i in range(n)) + 'z: 0}\n' + ''.join('r%d: *a\n' % i for i in range(n))
    F['keyword-like-words'] = lambda n: '- yellow\n- name\n- title\n- fine\n- other\n- 1x\n- .x\n- ~x\n- =x\n- <x\n' * (n // 10)
    F['keyword-like-keys'] = lambda n: ''.join('yellow%d: name\n' % i for i in range(n))
    return F


def unsafe_families():
    U_ = {}
    U_['ordereddict-shared-values'] = lambda n: '!!python/object/apply:collections.OrderedDict\n- - [k, &a [' + '1, ' * n + '2]]\n' + ''.join('  - [k%d, *a]\n' % i for i in range(n))
    U_['apply-args-alias-square'] = lambda n: '- &a [' + '1, ' * n + '2]\n' + '- !!python/object/apply:vf_shapes.make_factory [*a, 1]\n' * (n // 4)
    U_['setstate-shared'] = lambda n: '!!python/object:vf_shapes.StateDict\nA: &a [' + '1, ' * n + '2]\nB: [' + '*a, ' * n + '0]\n'
    U_['object-list'] = lambda n: '- !!python/object:vf_shapes.Plain {a: 1, b: [2]}\n' * n
    U_['tuple-list'] = lambda n: '- !!python/tuple [1, 2]\n' * n
    U_['new-args'] = lambda n: '- !!python/object/new:vf_shapes.NewArgs [1, 2]\n' * n
    U_['name-list'] = lambda n: "- !!python/name:len ''\n" * n
    U_['deep-state-aliases'] = lambda n: '!!python/object/new:vf_shapes.StateTuple\nstate: !!python/tuple\n- &a [' + '1, ' * n + '2]\n- [' + '*a, ' * n + '0]\n'
    return U_


def dump_values():
    V = {}
    V['str-long'] = lambda n: 'a' * n
    V['str-words'] = lambda n: 'ab ' * n
    V['str-lines'] = lambda n: 'ab\n' * n
    V['str-unicode'] = lambda n: '\u00e9\u4e2d' * n
    V['str-control'] = lambda n: 'a\x07' * n
    V['str-quotes'] = lambda n: "'\"" * n
    V['str-spaces'] = lambda n: 'a' + ' ' * n + 'b'
    V['str-breaks'] = lambda n: 'a' + '\n' * n + 'b'
    V['list-ints'] = lambda n: list(range(n))
    V['list-strs'] = lambda n: ['item'] * n
    V['list-distinct-strs'] = lambda n: ['item%d' % i for i in range(n)]
    V['list-empty-lists'] = lambda n: [[] for _ in range(n)]
    V['list-empty-dicts'] = lambda n: [{} for _ in range(n)]
    V['list-small-lists'] = lambda n: [[i] for i in range(n)]
    V['list-small-dicts'] = lambda n: [{'k': i} for i in range(n)]
    V['dict-keys'] = lambda n: {'k%d' % i: i for i in range(n)}
    V['dict-int-keys'] = lambda n: {i: 'v' for i in range(n)}
    V['set'] = lambda n: set(range(n))
    V['shared-one'] = lambda n: [[1]] * n
    V['shared-many'] = lambda n: [x for i in range(n // 2) for x in ((lambda l: (l, l))([i]))]
    V['floats'] = lambda n: [i + 0.5 for i in range(n)]
    V['bytes'] = lambda n: b'\x00\xff' * n
    V['bytes-many'] = lambda n: [b'ab'] * n
    V['dates'] = lambda n: [datetime.date(2001, 1, 1)] * n
    V['datetimes'] = lambda n: [datetime.datetime(2001, 1, 1, 1, 2, 3, i % 1000) for i in range(n)]
    V['lookalikes'] = lambda n: ['yes', '1', '~', '1:30'] * (n // 4)
    V['multiline-items'] = lambda n: ['a\nb'] * n
    V['long-keys'] = lambda n: {'k' * 200 + str(i): 1 for i in range(n // 20)}
    V['complex-keys'] = lambda n: {(i, i): 1 for i in range(n)} if False else {'a\nb%d' % i: 1 for i in range(n)}
    V['none-bools'] = lambda n: [None, True, False] * (n // 3)
    # one shared container that itself grows, referenced n times: linear with anchors/aliases, quadratic if sharing is lost
    # (str / bytes are never aliased in YAML output and a merge copies entries: those products are legitimately quadratic)
    V['shared-tuple-square'] = lambda n: (lambda t: [t] * n)(tuple(range(n)))
    V['shared-list-square'] = lambda n: (lambda t: [t] * n)(list(range(n)))
    V['shared-dict-square'] = lambda n: (lambda t: {'k%d' % i: t for i in range(n)})({i: i for i in range(n)})
    V['shared-date'] = lambda n: (lambda t: [t] * n)(datetime.date(2001, 1, 1))
    V['keyword-like-strs'] = lambda n: ['yellow', 'name', 'title', 'fine', 'other', '1x', '.x', '~x'] * (n // 8)
    return V


DUMP_OPTS = [('default', {}), ('flow', {'default_flow_style': True}), ('width10', {'width': 10}), ('dq', {'default_style': '"'}), ('sq-width10', {'default_style': "'", 'width': 10}),
             ('literal', {'default_style': '|'}), ('folded-width10', {'default_style': '>', 'width': 10}), ('canonical', {'canonical': True}), ('unicode', {'allow_unicode': True})]

FRAMES = [('rep', lambda u, n: u * n), ('lines', lambda u, n: (u + '\n') * n), ('seq', lambda u, n: '- ' + u * n), ('flow', lambda u, n: '[' + u * n),
          ('dq', lambda u, n: '"' + u * n + '"'), ('val', lambda u, n: 'k: ' + u * n), ('spaced', lambda u, n: (u + ' ') * n)]


class _TooLong(BaseException):
    pass


def _alarm(signum, frame):
    raise _TooLong()


def measure(T, sub, name, mk_fn, detail=''):
    """mk_fn(n) -> zero-argument callable doing the work at size n"""
    import signal
    ws = []
    for n in (N0, 2 * N0, 4 * N0):
        T.evaluations += 1
        if T.trace: T.begin({'family': name, 'n': n})
        fn = mk_fn(n)
        old = signal.signal(signal.SIGALRM, _alarm)
        signal.setitimer(signal.ITIMER_REAL, 120.0)
        try:
            w = work(fn)
        except _TooLong:
            sys.setprofile(None)
            T.violation(sub, 'superlinear-work', {'family': name}, detail='%s: size %d did not finish within 120 s (smaller sizes: %r calls)' % (name, n, ws))
            return
        finally:
            signal.setitimer(signal.ITIMER_REAL, 0)
            signal.signal(signal.SIGALRM, old)
        if w is None:
            T.count('recursion-limited')
            return
        ws.append(w)
    r1 = ws[1] / max(1, ws[0])
    r2 = ws[2] / max(1, ws[1])
    nontriv = ws[2] > 1.5 * ws[0]
    T.nontrivial += 1 if nontriv else 0
    T.outcome((round(r1, 1), round(r2, 1)))
    T.extra['max_ratio'] = max(T.extra.get('max_ratio', 0), r1 if nontriv else 0, r2 if nontriv else 0)
    if (r1 > TOL or r2 > TOL) and ws[2] > 2000:
        T.violation(sub, 'superlinear-work', {'family': name}, detail='%s: work at n, 2n, 4n (n=%d) = %r: ratios %.2f and %.2f exceed %.1f %s' % (name, N0, ws, r1, r2, TOL, detail))


# event- and node-level output (yaml.emit / yaml.serialize_all) of the parsed / composed form of these load families
EMIT_FAMILIES = ('documents', 'documents-explicit-end', 'documents-tag-directives', 'documents-yaml-directives', 'anchors-aliases', 'aliases-one-anchor', 'block-seq', 'block-map',
                 'flow-seq', 'flow-map', 'tags', 'verbatim-tags', 'plain-words', 'literal', 'folded', 'double-quoted', 'double-escapes', 'seq-of-maps', 'complex-keys',
                 'quoted-key-long', 'tag-long', 'anchor-long', 'unicode-plain')


def _emit_jobs(T, name):
    f = load_families()[name]

    def mk_emit(n):
        evs = list(yaml.parse(f(n)))
        return lambda: yaml.emit(evs)

    def mk_ser(n):
        nodes = list(yaml.compose_all(f(n)))
        return lambda: yaml.serialize_all(nodes)
    measure(T, 'emit', 'emit:' + name, mk_emit)
    measure(T, 'emit', 'serialize_all:' + name, mk_ser)


def gen_units(alpha):
    for a in alpha:
        yield a
    for a in alpha:
        for b in alpha:
            yield a + b


def plan(tier, seed):
    q = tier == 'quick'
    jobs = [('load', name) for name in load_families()]
    jobs += [('loadwild', name) for name in ('block-seq', 'plain-words', 'flow-seq', 'block-map', 'seq-of-maps', 'keyword-like-words', 'keyword-like-keys', 'ints', 'bools-nulls')]
    jobs += [('loadunsafe', name) for name in unsafe_families()]
    jobs += [('emit', name) for name in EMIT_FAMILIES]
    jobs += [('dumpfull', name) for name in ('shared-tuple-square', 'shared-list-square', 'list-small-lists', 'shared-many', 'dict-keys')]
    jobs += [('dump', name) for name in dump_values()]
    jobs += [('dumpwild', name) for name in ('list-distinct-strs', 'dict-keys', 'list-strs', 'keyword-like-strs', 'list-ints')]
    units = list(gen_units(CORE))
    core14 = set(CORE[:14])
    NP = 48
    for k in range(NP):
        jobs.append(('gen', k, NP, q, seed % 8))
    if not q:
        for k in range(256):
            jobs.append(('gen3', k, 256))
    return jobs


def run_job(job, T):
    kind = job[0]
    T.extra = {}
    if kind == 'load':
        f = load_families()[job[1]]
        measure(T, 'load', 'load:' + job[1], lambda n: _load(f(n)))
        T.sample('load', {'family': job[1], 'text_at_n=3': f(3)})
    elif kind == 'loadwild':
        f = load_families()[job[1]]
        measure(T, 'load', 'load-wildcard-resolver:' + job[1], lambda n: _load(f(n), WildLoader))
        T.sample('load', {'family': 'wildcard-resolver:' + job[1]})
    elif kind == 'loadunsafe':
        import vf_shapes
        f = unsafe_families()[job[1]]
        measure(T, 'load', 'unsafe_load:' + job[1], lambda n: _load(f(n), yaml.UnsafeLoader))
        T.sample('load', {'family': 'unsafe:' + job[1], 'text_at_n=2': f(2)})
    elif kind == 'emit':
        _emit_jobs(T, job[1])
        T.sample('emit', {'family': job[1]})
    elif kind == 'dumpfull':
        v = dump_values()[job[1]]
        measure(T, 'dump', 'dump-full-dumper:' + job[1], lambda n: (lambda val=v(n): yaml.dump(val, Dumper=yaml.Dumper)))
        T.sample('dump', {'family': 'full-dumper:' + job[1]})
    elif kind == 'dump':
        v = dump_values()[job[1]]
        for on, o in DUMP_OPTS:
            if job[1].startswith('str') or on in ('default', 'flow', 'canonical'):
                measure(T, 'dump', 'dump:%s/%s' % (job[1], on), lambda n: (lambda val=v(n): yaml.safe_dump(val, **o)))
        measure(T, 'dump', 'dump_all:%s' % job[1], lambda n: (lambda val=[v(4)] * n: yaml.safe_dump_all(val)))
        T.sample('dump', {'family': job[1]})
    elif kind == 'dumpwild':
        v = dump_values()[job[1]]
        measure(T, 'dump', 'dump-wildcard-resolver:' + job[1], lambda n: (lambda val=v(n): yaml.dump(val, Dumper=WildDumper)))
        T.sample('dump', {'family': 'wildcard-resolver:' + job[1]})
    elif kind == 'gen3':
        _, k, np_ = job
        i = 0
        last = None
        for u in (a + b + c for a in CORE[:14] for b in CORE[:14] for c in CORE[:14]):
            for fn, fr in FRAMES:
                i += 1
                if i % np_ != k:
                    continue
                measure(T, 'generated', 'gen:%s:%r' % (fn, u), lambda n, fr=fr, u=u: _load(fr(u, n)))
                last = (fn, u)
        if last:
            T.sample('generated', {'frame': last[0], 'unit': last[1]})
    elif kind == 'gen':
        _, k, np_, q, sl = job
        core14 = set(CORE[:14])
        i = 0
        last = None
        for ui, u in enumerate(gen_units(CORE)):
            if q and not all(ch in core14 for ch in u) and ui % 8 != sl:
                continue
            for fn, fr in FRAMES:
                i += 1
                if i % np_ != k:
                    continue
                measure(T, 'generated', 'gen:%s:%r' % (fn, u), lambda n, fr=fr, u=u: _load(fr(u, n)))
                last = (fn, u)
        if last:
            T.sample('generated', {'frame': last[0], 'unit': last[1]})
    else:
        raise ValueError(job)


def finalize(agg, tier, seed):
    mr = 0
    for _, e in agg.extras:
        mr = max(mr, e.get('max_ratio', 0))
    return {'max_ratio_observed_on_scaling_families': round(mr, 3)}


def replay(sub, case, T):
    T.extra = {}
    name = case['family']
    if name.startswith('emit:') or name.startswith('serialize_all:'):
        _emit_jobs(T, name.split(':', 1)[1])
    elif name.startswith('load:'):
        f = load_families()[name[5:]]
        measure(T, sub, name, lambda n: _load(f(n)))
    elif name.startswith('load-wildcard-resolver:'):
        f = load_families()[name.split(':', 1)[1]]
        measure(T, sub, name, lambda n: _load(f(n), WildLoader))
    elif name.startswith('dump-wildcard-resolver:'):
        v = dump_values()[name.split(':', 1)[1]]
        measure(T, sub, name, lambda n: (lambda val=v(n): yaml.dump(val, Dumper=WildDumper)))
    elif name.startswith('unsafe_load:'):
        import vf_shapes
        f = unsafe_families()[name.split(':', 1)[1]]
        measure(T, sub, name, lambda n: _load(f(n), yaml.UnsafeLoader))
    elif name.startswith('dump-full-dumper:'):
        v = dump_values()[name.split(':', 1)[1]]
        measure(T, sub, name, lambda n: (lambda val=v(n): yaml.dump(val, Dumper=yaml.Dumper)))
    elif name.startswith('dump_all:'):
        v = dump_values()[name[9:]]
        measure(T, sub, name, lambda n: (lambda val=[v(4)] * n: yaml.safe_dump_all(val)))
    elif name.startswith('dump:'):
        vn, on = name[5:].split('/')
        v = dump_values()[vn]
        o = dict(DUMP_OPTS)[on]
        measure(T, sub, name, lambda n: (lambda val=v(n): yaml.safe_dump(val, **o)))
    elif name.startswith('gen:'):
        _, fn, urepr = name.split(':', 2)
        import ast
        u = ast.literal_eval(urepr)
        fr = dict(FRAMES)[fn]
        measure(T, sub, name, lambda n: _load(fr(u, n)))


def snippet(sub, case):
    return '# ./check C20 --replay <this file>   family=%r' % (case['family'],)


def selftest():
    def lin(n):
        return lambda: [len(str(i)) for i in range(n)]
    w1, w2 = work(lin(500)), work(lin(1000))
    assert w1 > 400 and 1.8 < w2 / w1 < 2.2, (w1, w2)

    def quad():
        x = []
        for i in range(60):
            for j in range(i):
                x.append(len(x))
    assert work(quad) > 1000
