"""C05 - emit o parse = identity on events (E1), ill-formed streams rejected only with EmitterError (E3)."""
import itertools
import yaml
from .. import universe as U, events as E
from ..oracles import equiv, grammar

ID = 'C05'
LEVEL = 'exploration'
RULE = ('well-formed event streams generated from the event grammar: one scalar (every text <=L over the 41-symbol '
        'alphabet, folding words, simple-key threshold lengths) x requested style {None,\'\',\',",|,>} x implicit/tag '
        'combination x 11 structural contexts; a tag x implicit x anchor x style product on a text pool; all node trees '
        '<=N nodes (block/flow, anchors, aliases, empty collections); document-level product (1-3 documents x explicit '
        'markers x %YAML x %TAG incl. non-ASCII prefix); each emitted under every emitter option set within the '
        'deviation bound by the Python and the LibYAML emitter and parsed by both parsers, compared with O-equiv. '
        'Plus explicit-state search: every sequence <=D over 18 event shapes fed event by event into a fresh emitter '
        '(pruned at the first rejection, Python emitter deduplicated on its canonical control state): any exception other '
        'than EmitterError is a violation and every grammar-complete sequence of individually valid events must emit '
        'and round-trip. non-trivial = the stream is not a single plain ASCII-letter scalar document')
ASSUMPTIONS = ['scalar style, flow style and explicit document markers are requests, not content: not compared here (C12/C15 check markers)',
               'LibYAML emitter is the binary linked from yaml/_yaml.c',
               'a dead sequence that the emitter silently accepts is counted (silently_accepted) but is not a violation: the statement constrains how it rejects']

EMITTERS = (('py', yaml.Dumper), ('c', yaml.CDumper))
PARSERS = (('py', yaml.Loader), ('c', yaml.CLoader))
OPT_AXES = ('canonical', 'indent', 'width', 'allow_unicode', 'line_break')
STYLES = [None, '', "'", '"', '|', '>']
IMPL4 = [((True, False), None), ((False, True), None), ((True, True), None), ((False, False), '!local')]
TAGS = [None, '!', '!local', 'tag:yaml.org,2002:str', 'tag:yaml.org,2002:int', 'tag:é.com,2000:x', 'tag:e.com,2000:x', 'tag:x.org,2000:a b',
        '!a!b', 'tag:x.org,2000:a%b', '!é']
TEXT_POOL = ['', 'x', 'a b', 'yes', ' lead', 'multi\nline', 'é', '- x', 'k: v', '#c', 'w' * 130, '\x07', 'trail ', '\n', "it's", '1']
CTX_RED = ['root', 'bseq', 'bmap-key', 'fmap-val', 'fseq', 'deep5']
OPTS_RED = [{}, {'canonical': True}, {'width': 3}, {'allow_unicode': True}, {'indent': 1}, {'indent': 9, 'width': 5}]


def bounds(tier, seed):
    q = tier == 'quick'
    return {'text_len_all_options': 1, 'text_len': 2 if q else 3, 'tree_nodes': 4 if q else 5, 'option_deviations': 1 if q else 2,
            'fold_pieces': 3 if q else 5, 'documents': 2 if q else 3, 'illformed_depth_py': 6 if q else 8, 'illformed_depth_c': 5 if q else 6,
            'quick_seed_slice': 'length-3 texts with index % 64 == seed % 64' if q else None}


def opt_sets(dev):
    return list(U.option_sets(dev, OPT_AXES))


def emit(ds, Dumper, opts):
    return yaml.emit(E.build_all(ds), Dumper=Dumper, **opts)


def roundtrip(T, sub, ds, opts, emitters=EMITTERS, nontrivial=1):
    """the real code runs here: emit with each emitter, parse with each parser, compare with O-equiv"""
    for en, Dm in emitters:
        T.evaluations += 1
        case = {'events': ds, 'options': opts, 'emitter': en}
        if T.trace: T.begin(case)
        try:
            text = emit(ds, Dm, opts)
        except Exception as e:
            T.violation(sub, 'emit-exception:' + type(e).__name__, case,
                        detail='%s emitter raised %s(%s) on a well-formed stream' % (en, type(e).__name__, str(e)[:200]))
            continue
        for pn, Ld in PARSERS:
            try:
                back = E.describe_all(yaml.parse(text, Loader=Ld))
            except Exception as e:
                T.violation(sub, 'parse-rejects:' + type(e).__name__, case,
                            detail='%s emitter wrote %r; %s parser raised %s(%s)' % (en, _short(text), pn, type(e).__name__, str(e).replace('\n', ' ')[:200]))
                continue
            why = equiv.equiv(ds, back)
            if why:
                T.violation(sub, 'events-differ', case, detail='%s emitter wrote %r; %s parser: %s' % (en, _short(text), pn, why))
            elif en == 'py' and pn == 'py':
                T.outcome(tuple((b[5], b[2] is None) for b in back if b[0] == 'SCALAR')[:3])
    T.nontrivial += nontrivial


def _short(x, n=240):
    return x if len(x) <= n else x[:n // 2] + ' ... ' + x[-n // 2:]


def scalar_streams(text, styles, impls, ctxs, anchor=None):
    for st in styles:
        for imp, tag in impls:
            s = E.S(text, style=st, implicit=imp, tag=tag, anchor=anchor)
            for c in ctxs:
                yield E.stream(E.doc(E.in_context(c, s)))


# ---------------------------------------------------------------- ill-formed streams (E3)
SHAPES = [
    ('SS',), ('SE',), ('DS', False, None, None), ('DS', True, (1, 1), (('!e!', 'tag:e.com,2000:'),)), ('DE', False), ('DE', True),
    ('SEQ_S', None, None, True, False), ('SEQ_S', 'a', '!t', False, True), ('SEQ_E',),
    ('MAP_S', None, None, True, False), ('MAP_S', None, None, True, True), ('MAP_E',),
    ('SCALAR', None, None, (True, False), 'x', None), ('SCALAR', 'a', '!t', (False, False), '', '"'), ('SCALAR', None, None, (True, False), 'a\nb', '|'),
    ('ALIAS', 'a'),
    # individually invalid events (the emitter must reject them with EmitterError, nothing else)
    ('SCALAR', None, None, (False, False), 'x', None), ('ALIAS', None),
]
NVALID = 16


def feed(seq, Dumper):
    """feed the shapes one by one into a fresh emitter; returns (accepted_count, exception or None, emitter, text)"""
    import io
    out = io.StringIO()
    em = Dumper(out)
    n = 0
    try:
        for i in seq:
            em.emit(E.build(SHAPES[i]))
            n += 1
    except BaseException as e:
        return n, e, em, out.getvalue()
    return n, None, em, out.getvalue()


def py_state(em):
    """canonical control state of the Python emitter: everything an expect_* / need_* / check_* decision reads that is
    not text or column.  Sound for this sub-check because only acceptance / exception class are observed."""
    try:
        return (em.state.__name__, tuple(s.__name__ for s in em.states), em.flow_level, len(em.indents),
                tuple(E.describe(e)[0] + ('+' if getattr(e, 'anchor', None) else '') for e in em.events),
                em.root_context, em.sequence_context, em.mapping_context, em.simple_key_context, bool(em.open_ended), em.event is not None and type(em.event).__name__)
    except AttributeError:
        return None


def explore_ill(T, en, Dumper, first, depth):
    sub = 'illformed-' + en
    seen = set()
    frontier = [(first,)]
    level = 1
    while frontier and level <= depth:
        nxt = []
        for seq in frontier:
            T.evaluations += 1
            if T.trace: T.begin({'shapes': list(seq), 'emitter': en})
            n, exc, em, text = feed(seq, Dumper)
            T.transitions += 1
            kinds = [SHAPES[i][0] for i in seq]
            verdict = grammar.events_verdict(kinds)
            allvalid = all(i < NVALID for i in seq)
            if exc is not None:
                if not isinstance(exc, yaml.emitter.EmitterError):
                    T.violation(sub, 'non-emitter-error:' + type(exc).__name__, {'shapes': list(seq), 'emitter': en},
                                detail='%s emitter raised %s(%s) after %d events of %s' % (en, type(exc).__name__, str(exc)[:160], n, kinds))
                elif verdict != 'dead' and allvalid:
                    T.violation(sub, 'rejects-grammatical-prefix', {'shapes': list(seq), 'emitter': en},
                                detail='%s emitter raised EmitterError(%s) on a grammatical prefix %s' % (en, str(exc)[:160], kinds))
                else:
                    T.count('rejected')
                T.outcome((en, 'EmitterError' if isinstance(exc, yaml.emitter.EmitterError) else type(exc).__name__, str(exc)[:40]))
                continue
            if verdict == 'dead':
                T.count('silently_accepted_so_far')
            if verdict == 'complete' and allvalid:
                T.nontrivial += 1
                # must round-trip
                ds = [SHAPES[i] for i in seq]
                for pn, Ld in PARSERS:
                    try:
                        back = E.describe_all(yaml.parse(text, Loader=Ld))
                        why = equiv.equiv(ds, back)
                    except Exception as e:
                        why = 'parser raised %s(%s)' % (type(e).__name__, str(e).replace('\n', ' ')[:160])
                    if why:
                        T.violation(sub, 'complete-sequence-roundtrip', {'shapes': list(seq), 'emitter': en},
                                    detail='%s emitter wrote %r; %s parser: %s' % (en, _short(text), pn, why))
            if en == 'py':
                key = py_state(em)
                if key is not None:
                    key = (key, verdict == 'dead', allvalid)
                    if key in seen:
                        T.count('deduplicated')
                        continue
                    seen.add(key)
                    T.states += 1
            else:
                T.states += 1
            if level < depth:
                for i in range(len(SHAPES)):
                    if en == 'c' and i == 17:
                        continue      # AliasEvent(anchor=None): an argument *type* error for the C binding (TypeError), not an ill-formed stream
                    nxt.append(seq + (i,))
        frontier = nxt
        level += 1


# ---------------------------------------------------------------- plan / jobs
def plan(tier, seed):
    q = tier == 'quick'
    n = len(U.STR_SIGMA)
    jobs = [('thr', k) for k in range(12)] + [('esckey', k, 8) for k in range(8)]
    jobs += [('txt1', a, 1 if q else 2) for a in range(-1, n)]
    jobs += [('txt2', a, q) for a in range(n)]
    if q:
        jobs += [('txt3slice', a, seed % 64) for a in range(n)]
    else:
        jobs += [('txt3', a, b) for a in range(n) for b in range(n)]
    jobs += [('tagmix', k, 16, q) for k in range(16)]
    jobs += [('docs', k, 16, 2 if q else 3) for k in range(16)]
    jobs += [('colltags', k, 8) for k in range(8)]
    jobs += [('boundary', k, 6) for k in range(6)]
    jobs += [('trees', k, 32, 4, 1 if q else 2) for k in range(32)]
    if not q:
        jobs += [('trees', k, 256, 5, 1) for k in range(256)]
    jobs += [('fold', 3 if q else 5, k, 32) for k in range(32)]
    for i in range(len(SHAPES)):
        jobs.append(('ill', 'py', i, 6 if q else 8))
        if i != 17:
            jobs.append(('ill', 'c', i, 5 if q else 6))
    return jobs


TAGSETS = [None, (('!e!', 'tag:e.com,2000:'),), (('!u!', 'tag:é.com,2000:'),), (('!e!', 'tag:e.com,2000:'), ('!f!', '!loc-'))]


def doc_streams(maxdocs):
    roots = [[E.S('x')], [E.S('')], [E.S('a\n\n', style='|')], E.seq([[E.S('y')]]), E.seq([], flow=True),
             [E.S('v', tag='tag:e.com,2000:t', implicit=(False, False))], E.mapping([([E.S('k')], [E.S('')])])]
    variants = []
    for ex in (False, True):
        for ver in (None, (1, 1), (1, 2)):
            for tg in TAGSETS:
                for de in (False, True):
                    variants.append((ex, ver, tg, de))
    for n in range(0, maxdocs + 1):
        if n == 0:
            yield E.stream()
            continue
        # first document: every variant x every root; later documents: a reduced variant list
        # later documents: no directives (a handle declared by an EARLIER document must not leak into them), %YAML, %TAG
        later = [(False, None, None, False), (True, (1, 1), None, True), (True, None, TAGSETS[1], False), (True, None, (('!e!', 'tag:other.org,2011:'),), False)]
        for v0 in variants:
            for r0 in roots:
                d0 = E.doc(r0, explicit=v0[0], version=v0[1], tags=v0[2], end_explicit=v0[3])
                if n == 1:
                    yield E.stream(d0)
                    continue
                for rest in itertools.product(itertools.product(later, roots if n == 2 else [roots[0], roots[2], roots[5]]), repeat=n - 1):
                    ds = [d0] + [E.doc(r, explicit=v[0], version=v[1], tags=v[2], end_explicit=v[3]) for v, r in rest]
                    yield E.stream(*ds)


def _tag_ok(tag, tagset):
    """a tag that needs a handle declared in the document is only used with its %TAG (well-formedness is not at stake:
    the emitter falls back to the verbatim form; both are enumerated)"""
    return True


def run_job(job, T):
    kind = job[0]
    if kind == 'txt1':
        text = '' if job[1] < 0 else U.STR_SIGMA[job[1]]
        opts = opt_sets(job[2])
        for ds in scalar_streams(text, STYLES, IMPL4, E.CONTEXTS):
            for o in opts:
                roundtrip(T, 'scalar-text', ds, o)
        for ds in scalar_streams(text, STYLES, IMPL4[:1], E.CONTEXTS, anchor='a'):
            for o in OPTS_RED:
                roundtrip(T, 'scalar-text', ds, o)
        T.sample('scalar-text', {'text': text})
    elif kind == 'txt2':
        a = U.STR_SIGMA[job[1]]
        ctxs, opts = (CTX_RED, OPTS_RED[:4]) if job[2] else (E.CONTEXTS, OPTS_RED)
        for b in U.STR_SIGMA:
            for ds in scalar_streams(a + b, STYLES, IMPL4[:2], ctxs):
                for o in opts:
                    roundtrip(T, 'scalar-text', ds, o)
        T.sample('scalar-text', {'text': a + b})
    elif kind in ('txt3', 'txt3slice'):
        a = U.STR_SIGMA[job[1]]
        i = 0
        ctxs = ['root', 'bseq', 'bmap-key', 'fmap-val', 'deep5']
        for b in (U.STR_SIGMA if kind == 'txt3slice' else [U.STR_SIGMA[job[2]]]):
            for c in U.STR_SIGMA:
                i += 1
                if kind == 'txt3slice' and i % 64 != job[2]:
                    continue
                for ds in scalar_streams(a + b + c, STYLES, IMPL4[:2], ctxs):
                    for o in OPTS_RED[:4]:
                        roundtrip(T, 'scalar-text-len3', ds, o)
        T.sample('scalar-text-len3', {'text': a + b + c})
    elif kind == 'tagmix':
        _, k, np_, q = job
        i = 0
        ctxs = CTX_RED if q else E.CONTEXTS
        for text in (TEXT_POOL[:8] if q else TEXT_POOL):
            for tag in TAGS:
                for imp in ((True, False), (False, True), (True, True), (False, False)):
                    if tag is None and imp == (False, False):
                        continue
                    for anchor in ((None, 'A-1_b') if q else (None, 'a', 'A-1_b')):
                        i += 1
                        if i % np_ != k:
                            continue
                        for st in STYLES:
                            s = E.S(text, style=st, implicit=imp, tag=tag, anchor=anchor)
                            for c in ctxs:
                                for tg in ((None, TAGSETS[2] if 'é' in (tag or '') else TAGSETS[1]) if q else (None, TAGSETS[1], TAGSETS[2])):
                                    ds = E.stream(E.doc(E.in_context(c, s), tags=tg))
                                    for o in ({}, {'canonical': True}):
                                        roundtrip(T, 'tags', ds, o)
        T.sample('tags', {'events': ds})
    elif kind == 'boundary':
        text = None
        for i, ch in enumerate(U.BOUNDARY):
            if i % job[2] != job[1]:
                continue
            for text in (ch, 'a' + ch + 'b', ch + ' ', 'x ' + ch + ' y'):
                for ds in scalar_streams(text, STYLES, IMPL4[:2], CTX_RED):
                    for o in OPTS_RED:
                        roundtrip(T, 'boundary-chars', ds, o)
        T.sample('boundary-chars', {'text': text})
    elif kind == 'colltags':
        # tagged collections (implicit and not) in every position, next to tagged / untagged neighbours: per-node emitter
        # state (prepared tag, prepared anchor, analysis) must not leak from one node to the next
        _, k, np_ = job
        ctags = [None, '!ct', 'tag:yaml.org,2002:seq', 'tag:yaml.org,2002:map', 'tag:e.com,2000:c']
        ntags = [(None, (True, False)), ('!nt', (False, False)), ('tag:yaml.org,2002:str', (True, False)), ('tag:yaml.org,2002:int', (False, False)), ('!', (True, True))]
        i = 0
        ds = None
        for ctag in ctags:
            for cimp in (True, False):
                if ctag is None and not cimp:
                    continue
                for coll in ('seq0', 'map0', 'seq1', 'map1'):
                    for flow in (False, True):
                        for canch in (None, 'c'):
                            for ntag, nimp in ntags:
                                for nanch in (None, 'n'):
                                    i += 1
                                    if i % np_ != k:
                                        continue
                                    if coll == 'seq0':
                                        c = E.seq([], flow=True, anchor=canch, tag=ctag, implicit=cimp)
                                    elif coll == 'map0':
                                        c = E.mapping([], flow=True, anchor=canch, tag=ctag, implicit=cimp)
                                    elif coll == 'seq1':
                                        c = E.seq([[E.S('i')]], flow=flow, anchor=canch, tag=ctag, implicit=cimp)
                                    else:
                                        c = E.mapping([([E.S('i')], [E.S('j')])], flow=flow, anchor=canch, tag=ctag, implicit=cimp)
                                    node = [E.S('v', tag=ntag, implicit=nimp, anchor=nanch)]
                                    node2 = E.seq([[E.S('w')]], tag=ntag if ntag not in ('!', None) else '!st', implicit=False, flow=True)
                                    for body in (E.mapping([(c, node)]), E.mapping([(c, node2)], flow=True), E.mapping([(node, c), ([E.S('z', tag='!zt', implicit=(False, False))], node)]),
                                                 E.seq([c, node, c if canch is None else [('ALIAS', canch)]]), E.mapping([(c, c if canch is None else node)])):
                                        ds = E.stream(E.doc(body))
                                        for o in ({}, {'canonical': True}, {'width': 5}):
                                            roundtrip(T, 'collection-tags', ds, o)
        T.sample('collection-tags', {'events': ds})
    elif kind == 'docs':
        _, k, np_, nd = job
        opts = opt_sets(1)
        for i, ds in enumerate(doc_streams(nd)):
            if i % np_ != k:
                continue
            for o in (opts if len(ds) <= 8 else OPTS_RED[:3]):
                roundtrip(T, 'documents', ds, o)
        T.sample('documents', {'events': ds})
    elif kind == 'trees':
        _, k, np_, nn, dev = job
        opts = opt_sets(dev)
        for i, body in enumerate(E.trees(nn, 3)):
            if i % np_ != k:
                continue
            ds = E.stream(E.doc(body))
            for o in opts:
                roundtrip(T, 'trees', ds, o)
        T.sample('trees', {'events': ds})
    elif kind == 'fold':
        _, n, k, np_ = job
        opts = [{'width': w} for w in (3, 5, 10, 20)] + [{}, {'width': 5, 'indent': 1}, {'width': 5, 'canonical': True}, {'width': 5, 'line_break': '\r\n'}]
        for i, s in enumerate(U.fold_words(n)):
            if i % np_ != k:
                continue
            for ds in scalar_streams(s, STYLES, IMPL4[:1], ['root', 'bseq', 'bmap-val', 'deep5', 'fseq']):
                for o in opts:
                    roundtrip(T, 'folding', ds, o)
        T.sample('folding', {'text': s})
    elif kind == 'thr':
        s = U.thresholds()[job[1]]
        big = len(s) > 200
        for ds in scalar_streams(s, STYLES, IMPL4[:2] if big else IMPL4, ['bmap-key', 'fmap-key', 'bmap-key2', 'root', 'seq-of-map']):
            for o in (OPTS_RED[:3] if big else opt_sets(1)):
                roundtrip(T, 'thresholds', ds, o)
        # anchor + tag lengths push a short key over the 128 limit
        for n in (100, 118, 119, 120, 121, 125):
            s2 = E.S('k' * n, tag='!t23', implicit=(False, False), anchor='a23')
            for c in ('bmap-key', 'fmap-key'):
                for o in OPTS_RED:
                    roundtrip(T, 'thresholds', E.stream(E.doc(E.in_context(c, s2))), o)
        T.sample('thresholds', {'len': len(s)})
    elif kind == 'esckey':
        # keys that are short in characters but long once escaped (the scanner accepts a simple key within 1024 positions)
        s = None
        for i, s in enumerate(U.escaped_keys()):
            if i % job[2] != job[1]:
                continue
            for ds in scalar_streams(s, STYLES, IMPL4[:2], ['bmap-key', 'fmap-key', 'bmap-key2', 'seq-of-map']):
                for o in OPTS_RED[:3] + [{'allow_unicode': True}]:
                    roundtrip(T, 'thresholds', ds, o)
        T.sample('thresholds', {'len': len(s), 'written': len(s.encode('unicode_escape'))})
    elif kind == 'ill':
        _, en, first, depth = job
        explore_ill(T, en, dict(EMITTERS)[en], first, depth)
        T.sample('illformed-' + en, {'first': SHAPES[first], 'depth': depth})
    else:
        raise ValueError(job)


def finalize(agg, tier, seed):
    return {'states': agg.states, 'transitions': agg.transitions,
            'illformed_note': 'states/transitions are those of the ill-formed-stream search (Python emitter deduplicated on control state, LibYAML stateless)'}


def replay(sub, case, T):
    if 'shapes' in case:
        en = case['emitter']
        seq = tuple(case['shapes'])
        # replay the single sequence through the same verdict code: explore with depth = its length, restricted
        n, exc, em, text = feed(seq, dict(EMITTERS)[en])
        kinds = [SHAPES[i][0] for i in seq]
        if exc is not None and not isinstance(exc, yaml.emitter.EmitterError):
            T.violation(sub, 'non-emitter-error:' + type(exc).__name__, case, detail='%s raised %s(%s) after %d of %s' % (en, type(exc).__name__, exc, n, kinds))
        elif exc is not None and grammar.events_verdict(kinds) != 'dead' and all(i < NVALID for i in seq):
            T.violation(sub, 'rejects-grammatical-prefix', case, detail=str(exc))
        elif exc is None and grammar.events_verdict(kinds) == 'complete' and all(i < NVALID for i in seq):
            for pn, Ld in PARSERS:
                try:
                    why = equiv.equiv([SHAPES[i] for i in seq], E.describe_all(yaml.parse(text, Loader=Ld)))
                except Exception as e:
                    why = 'parser raised %s' % e
                if why:
                    T.violation(sub, 'complete-sequence-roundtrip', case, detail=why)
        return
    opts = dict(case.get('options') or {})
    ds = E.fix(case['events'])
    roundtrip(T, sub, ds, opts, emitters=[(n, d) for n, d in EMITTERS if n == case.get('emitter', n)])


def snippet(sub, case):
    if 'shapes' in case:
        return 'from vf.props import c05; print(c05.feed(%r, c05.dict(c05.EMITTERS)[%r]))' % (tuple(case['shapes']), case['emitter'])
    return ('import yaml\nfrom vf import events as E\nds = E.fix(%r)\ntext = yaml.emit(E.build_all(ds), Dumper=yaml.%s, **%r)\nprint(repr(text))\n'
            'print(E.describe_all(yaml.parse(text)))\n' % (case['events'], 'Dumper' if case.get('emitter') == 'py' else 'CDumper', case.get('options') or {}))


def selftest():
    equiv.selftest()
    grammar.selftest()
    ds = E.stream(E.doc(E.in_context('deep5', E.S('x'))))
    assert grammar.events_verdict([d[0] for d in ds]) == 'complete'
    for c in E.CONTEXTS:
        assert grammar.events_verdict([d[0] for d in E.stream(E.doc(E.in_context(c, E.S('x'))))]) == 'complete', c
    n = 0
    for body in E.trees(4, 3):
        n += 1
        assert grammar.events_verdict([d[0] for d in E.stream(E.doc(body))]) == 'complete'
    assert n > 100
    for ds in itertools.islice(doc_streams(2), 0, 2000, 37):
        assert grammar.events_verdict([d[0] for d in ds]) == 'complete'
    assert E.describe_all(E.build_all(ds)) == [tuple(d) for d in ds]
