"""C04 - full loading never imports, calls or instantiates what a document names (E1 + monitors)."""
import sys
import yaml
from .. import secgen as G, secmon

ID = 'C04'
LEVEL = 'exploration'
RULE = ('the C01 document space ctx[TAG KIND] (43 structural tags incl. all exact python/* value tags and odd forms; the five '
        'python/* prefixes x canary / builtin / missing / unimported names; every module.attr of every imported module; every '
        'tag registered on a live BaseConstructor subclass; 10 node kinds; 17 contexts incl. nesting under python/tuple) loaded '
        'by FullLoader, CFullLoader, full_load and full_load_all under the same monitors (canary events, import/exec/open/os '
        'audit events, sys.modules growth, profile hook for foreign Python calls and denied C calls). Expected outcome is '
        'computed from the tag alone: python/module, python/object, python/object/new, python/object/apply and unknown tags -> '
        'ConstructorError on every node kind and name; python/name:M.a on an empty scalar -> the very object '
        'getattr(sys.modules[M], a) (identity) when M is imported and has a, else ConstructorError, and ConstructorError on any '
        'other node kind or value; results may contain only plain data, tuples, complex numbers and such pre-existing objects. '
        'non-trivial = the document carries a python/* or unknown tag')
ASSUMPTIONS = ['hasattr/getattr on an already imported module is what "returning an existing attribute" means; the canary module\'s '
               'module-level __getattr__ firing for a missing name is therefore not counted as a call',
               'the allow-list of stdlib files for the profile hook is learned from core and python/* value-tag documents in the same process']

ENTRY = [('FullLoader', lambda d: yaml.load(d, Loader=yaml.FullLoader)), ('CFullLoader', lambda d: yaml.load(d, Loader=yaml.CFullLoader)),
         ('full_load', lambda d: yaml.full_load(d)), ('full_load_all', lambda d: list(yaml.full_load_all(d)))]
MON = None
NAMES = None
CORE_TAGS = set('!!' + t for t in G.CORE) | {'!'}
SPECIAL_TAGS = set('!!' + t for t in G.SPECIAL)
PYVAL_TAGS = set('!!' + t for t in G.PY_EXACT)
CONTEXTS = list(G.CONTEXTS) + ['nested-py']
NAME_PREFIX = G.Y + 'python/name:'


def bounds(tier, seed):
    q = tier == 'quick'
    return {'structural_tags': len(G.structural_tags()), 'kinds': len(G.KINDS), 'contexts': len(CONTEXTS), 'typed_parent_contexts': len(G.TYPED_CONTEXTS), 'entry_points': 4,
            'canary_names': len(G.CANARY_NAMES), 'module_name_slice': 'index % 8 == seed % 8' if q else 'all'}


def _sandbox():
    """if the tree under test does call what a document names, let it happen in an empty scratch directory with no stdin"""
    import os, tempfile
    try:
        d = '/var/tmp/vf-sbx-%d' % os.getppid()        # removed by the supervisor (vf/main.py) when the run ends
        os.makedirs(d, exist_ok=True)
        os.chdir(d)
        fd = os.open(os.devnull, os.O_RDONLY)
        os.dup2(fd, 0)
    except OSError:
        pass


class _DocTimeout(BaseException):
    pass


def _doc_alarm(signum, frame):
    raise _DocTimeout()


CUSTOM = []


def customise():
    """subclasses of the shipped loaders with their own (calling) constructors, registered in both orders; none of it
    may become visible through FullLoader / CFullLoader / full_load / full_load_all"""
    import vf_canary
    if CUSTOM:
        return

    def call_it(loader, node):
        return vf_canary.f()

    def call_multi(loader, suffix, node):
        return vf_canary.f(suffix)
    for i, Base in enumerate((yaml.FullLoader, yaml.CFullLoader, yaml.Loader, yaml.UnsafeLoader, yaml.SafeLoader)):
        A = type('CustomA%d' % i, (Base,), {})
        A.add_multi_constructor('!ca%d:' % i, call_multi)
        A.add_constructor('!pa%d' % i, call_it)
        B = type('CustomB%d' % i, (Base,), {})
        B.add_constructor('!pb%d' % i, call_it)
        B.add_multi_constructor('!cb%d:' % i, call_multi)
        C = type('CustomC%d' % i, (A,), {})
        C.add_constructor('!pc%d' % i, call_it)
        CUSTOM.extend([A, B, C])


def worker_init():
    global MON, NAMES
    import vf_canary
    customise()
    _sandbox()
    import signal
    signal.signal(signal.SIGALRM, _doc_alarm)
    MON = secmon.Monitor(harness_files=[__file__])
    corpus = []
    for t in G.CORE + G.PY_EXACT:
        for _, k in G.KINDS[:7]:
            for c in ('root', 'map-key', 'aliased', 'merge', 'omap-entry', 'set-member', 'second-doc', 'nested-py'):
                corpus.append(G.in_context(c, '!!%s %s' % (t, k)))
    corpus += ['2001-12-14t21:59:43.10-05:00', '!!binary "aGVsbG8="', '{a: 1, <<: {b: 2}}', '[1, 1.5, 0x1f, 1:30, .inf, ~, yes]', '!!python/complex 1+2j', '!!python/complex x',
               "!!python/name:len ''", "!!python/name:os.path.join ''", "!!python/name:nosuch.x ''", "!!python/name:os.nosuch ''", '!!python/name:len x', "!!python/name: ''",
               '!!python/object/apply:len [[]]', '!!python/object:os.x {}', '!!python/module:os ""', '!!python/object/new:int [1]', '!foo bar', '!!python/tuple [1, [2]]',
               '? !!python/tuple [1]\n: 2', '!!python/bytes "aGk="', '!!python/long 5', '!!python/unicode x', '&a !!python/tuple [*a]', '[', '*u']

    def run():
        for d in corpus:
            for _, fn in ENTRY:
                try:
                    fn(d)
                except yaml.YAMLError as e:
                    str(e)
                except Exception:
                    pass          # the warm-up must never fail (e.g. !!python/complex with malformed text raises ValueError)
    MON.learn(run)
    NAMES = G.module_names()


def resolve(name):
    """the harness's own reading of 'existing attribute of an already imported module' -> (True, obj) | (False, None)"""
    if not name:
        return (False, None)
    if '.' in name:
        mn, an = name.rsplit('.', 1)
    else:
        mn, an = 'builtins', name
    m = sys.modules.get(mn)
    if m is None or not an:
        return (False, None)
    try:
        return (True, getattr(m, an))
    except AttributeError:
        return (False, None)


def classify(tag):
    """expected behaviour class of a tag as written in the document"""
    if tag in CORE_TAGS:
        return ('core', None)
    if tag in SPECIAL_TAGS:
        return ('special', None)
    if tag in PYVAL_TAGS:
        return ('pyvalue', None)
    full = None
    if tag.startswith('!<') and tag.endswith('>'):
        full = tag[2:-1].replace('%25', '%')
    elif tag.startswith('!!'):
        full = G.Y + tag[2:]
    if full is not None and full.startswith(NAME_PREFIX) and '%' not in full:
        return ('name', full[len(NAME_PREFIX):])
    return ('reject', None)


STRUCTURAL_CONSUMED = {'merge': ('seq-empty', 'map-empty', 'map-ab', 'long', 'state-dunder'), 'merge-list': ('map-empty', 'map-ab', 'long', 'state-dunder'),
                       'omap-entry': ('map-ab',), 'pairs-entry': ('map-ab',)}


def check_doc(T, sub, case, doc, tag, kind, ctx, profile, prime=()):
    for fn in prime:          # a more trusting loader reads the same document first (monitors off): non-initial state
        try:
            with secmon.guard():
                fn(doc)
        except Exception:
            pass
    cls, name = classify(tag)
    exp_obj = None
    if cls == 'name':
        ok, exp_obj = resolve(name)
        expect = 'identity' if (ok and kind == 'scalar-empty') else 'reject'
    elif cls == 'reject':
        expect = 'reject'
    else:
        expect = 'any'
    allowed_ids = {id(exp_obj)} if expect == 'identity' else set()
    for en, fn in ENTRY:
        T.evaluations += 1
        if T.trace: T.begin(case)
        import signal
        signal.setitimer(signal.ITIMER_REAL, 10.0)      # a document that makes the loader block (input(), sleep, a lock) is a finding, not a stuck check
        MON.arm(profile)
        try:
            try:
                with secmon.guard():
                    res = ('ok', fn(doc))
            except yaml.YAMLError as e:
                res = ('yamlerror', type(e).__name__)
            except BaseException as e:
                res = ('exc', type(e).__name__, str(e)[:120])
        finally:
            signal.setitimer(signal.ITIMER_REAL, 0)
            ev = [e for e in MON.disarm() if not ((e[0] == 'canary' and e[1] == 'module-getattr') or
                                                  (e[0] == 'pycall' and e[2] == '__getattr__' and e[1].endswith('vf_canary.py')))]
        if ev:
            T.violation(sub, 'side-effect:' + ev[0][0], case, detail='%s on %r: %r' % (en, doc, ev[:4]))
        if res[0] == 'exc':
            # C04 constrains what loading may *do*; it promises ConstructorError only for construction / unknown tags.
            # Another exception class on a value tag (python/complex with malformed text -> ValueError) is reported in the
            # evidence counters, not as a violation.
            if res[1] == '_DocTimeout':
                T.violation(sub, 'blocked', case, detail='%s on %r did not return within 10 s' % (en, doc))
            elif expect == 'reject':
                T.violation(sub, 'rejected-with-non-yaml-exception:' + res[1], case, detail='%s on %r raised %s(%s) instead of ConstructorError' % (en, doc, res[1], res[2]))
            else:
                T.count('non-yaml-exception-on-value-tag:' + res[1])
            continue
        if res[0] == 'ok':
            bad = walk(res[1], allowed_ids)
            if bad:
                T.violation(sub, 'foreign-object-in-result', case, detail='%s on %r returned %s' % (en, doc, bad))
            if expect == 'reject':
                T.violation(sub, 'construction-tag-accepted', case, detail='%s loaded %r as %.80r instead of raising ConstructorError' % (en, doc, res[1]))
            elif expect == 'identity' and ctx == 'root':
                got = res[1] if en != 'full_load_all' else (res[1][0] if res[1] else None)
                if got is not exp_obj:
                    T.violation(sub, 'name-not-identical', case, detail='%s on %r returned %.80r, expected the existing object %.80r' % (en, doc, got, exp_obj))
        else:
            if expect == 'identity' and ctx == 'root' and res[1] == 'ConstructorError':
                T.violation(sub, 'existing-name-rejected', case, detail='%s on %r raised ConstructorError although %s is an attribute of an imported module' % (en, doc, name))
            if expect == 'reject' and res[1] != 'ConstructorError':
                T.count('rejected-by-' + res[1])
        T.outcome((expect, res[0], res[1] if res[0] != 'ok' else type(res[1]).__name__))
    T.nontrivial += 1 if cls not in ('core', 'special') else 0


PRIME_UNSAFE = (lambda d: yaml.load(d, Loader=yaml.UnsafeLoader), lambda d: yaml.load(d, Loader=yaml.CUnsafeLoader))


def _is_canary(name):
    return name == 'vf_canary' or name.startswith('vf_canary.')


def walk(obj, allowed_ids):
    seen = set()
    st = [obj]
    import datetime
    while st:
        o = st.pop()
        if id(o) in allowed_ids:
            continue
        t = type(o)
        if t in (type(None), bool, int, float, str, bytes, complex, datetime.date, datetime.datetime):
            continue
        if id(o) in seen:
            continue
        seen.add(id(o))
        if t in (list, tuple, set):
            st.extend(o)
        elif t is dict:
            st.extend(o.keys()); st.extend(o.values())
        else:
            return '%s object %.60r' % (t.__module__ + '.' + t.__qualname__, o)
    return None


def plan(tier, seed):
    q = tier == 'quick'
    jobs = [('struct', i) for i in range(len(G.structural_tags()))]
    jobs += [('canary', i, k, 8) for i in range(len(G.PY_PREFIX)) for k in range(8)]
    jobs += [('registered', k, 8) for k in range(8)]
    NS = 64
    for k in range(NS):
        if not q or k % 8 == seed % 8:
            jobs.append(('names', k, NS, q))
    return jobs


def run_job(job, T):
    kind = job[0]
    if kind == 'struct':
        tag = G.structural_tags()[job[1]]
        for kn, ktext in G.KINDS:
            for c in CONTEXTS + (G.TYPED_CONTEXTS if kn in G.TYPED_KINDS else []):
                doc = G.in_context(c, '%s %s' % (tag, ktext))
                check_doc(T, 'structural', {'doc': doc, 'tag': tag, 'kind': kn, 'context': c}, doc, tag, kn, c, True)
        T.sample('structural', {'doc': doc})
    elif kind == 'canary':
        prefix = G.PY_PREFIX[job[1]]
        doc = None
        for ni, name in enumerate(G.CANARY_NAMES):
            if ni % job[3] != job[2]:
                continue
            tag = G.tag_text(prefix + name)
            for kn, ktext in G.KINDS:
                for c in (CONTEXTS + (G.TYPED_CONTEXTS if kn in G.TYPED_KINDS[::2] else []) if name.startswith('vf_canary') else ('root', 'map-key', 'aliased', 'merge', 'set-member', 'nested-py')):
                    doc = G.in_context(c, '%s %s' % (tag, ktext))
                    check_doc(T, 'canary-names', {'doc': doc, 'tag': tag, 'kind': kn, 'context': c, 'primed': _is_canary(name)}, doc, tag, kn, c, True, prime=PRIME_UNSAFE if _is_canary(name) else ())
        if doc:
            T.sample('canary-names', {'doc': doc})
    elif kind == 'registered':
        for ti, (full, multi) in enumerate(G.registered_tags(yaml.constructor.BaseConstructor)):
            if ti % job[2] != job[1]:
                continue
            full2 = full + ('vf_canary.f' if multi else '')
            tag = '!<%s>' % full2
            short = '!!' + full2[len(G.Y):] if full2.startswith(G.Y) else tag
            for kn, ktext in G.KINDS:
                for c in ('root', 'map-key', 'aliased', 'merge', 'omap-entry', 'nested-py'):
                    doc = G.in_context(c, '%s %s' % (tag, ktext))
                    check_doc(T, 'registered-tags', {'doc': doc, 'tag': short if short in CORE_TAGS | SPECIAL_TAGS | PYVAL_TAGS else tag, 'kind': kn, 'context': c}, doc,
                              short if short in CORE_TAGS | SPECIAL_TAGS | PYVAL_TAGS else tag, kn, c, True)
        T.sample('registered-tags', {'doc': doc})
    elif kind == 'names':
        _, k, ns, quick_ = job
        T.count('module_names', len(NAMES))
        kinds = [G.KINDS[0], G.KINDS[3]] if quick_ else G.KINDS
        doc = None
        for i, name in enumerate(NAMES):
            if i % ns != k:
                continue
            for prefix in G.PY_PREFIX:
                tag = G.tag_text(prefix + name)
                for kn, ktext in kinds:
                    for c in (('root', 'seq-item') if quick_ else ('root', 'seq-item', 'aliased', 'nested-py')):
                        doc = G.in_context(c, '%s %s' % (tag, ktext))
                        check_doc(T, 'module-names', {'doc': doc, 'tag': tag, 'kind': kn, 'context': c}, doc, tag, kn, c, False)
        if doc:
            T.sample('module-names', {'doc': doc})
    else:
        raise ValueError(job)


def finalize(agg, tier, seed):
    jobs = sum(1 for j in plan(tier, seed) if j[0] == 'names')
    return {'module_names_in_process': agg.counters.get('module_names', 0) // max(1, jobs)}


def replay(sub, case, T):
    check_doc(T, sub, case, case['doc'], case['tag'], case['kind'], case['context'], True, prime=PRIME_UNSAFE if case.get('primed') else ())


def snippet(sub, case):
    return ('import yaml\ndoc = %r\nfor L in (yaml.FullLoader, yaml.CFullLoader):\n'
            '    try: print(L.__name__, repr(yaml.load(doc, Loader=L)))\n    except yaml.YAMLError as e: print(L.__name__, type(e).__name__)\n' % case['doc'])


def selftest():
    assert classify('!!python/name:os.system') == ('name', 'os.system') and classify('!<tag:yaml.org,2002:python/name:a.b>') == ('name', 'a.b')
    assert classify('!!python/object/apply:os.system')[0] == 'reject' and classify('!foo')[0] == 'reject' and classify('!!python/tuple')[0] == 'pyvalue'
    assert resolve('len') == (True, len) and resolve('os.path.join')[0] and not resolve('nosuchmodule.x')[0] and not resolve('')[0] and not resolve('os.')[0]
    assert walk([1, (2, 3j), {'k': len}], {id(len)}) is None and walk([object()], set())
