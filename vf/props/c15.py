"""C15 - dump output honours the formatting options it was given (E1 over values/events x option product)."""
import codecs, io, itertools
import yaml
from yaml.reader import Reader, ReaderError
from .. import universe as U, events as E
from ..oracles import canon, equiv, grammar

ID = 'C15'
LEVEL = 'exploration'
RULE = ('a core of values (every 1-symbol string over the 41-symbol alphabet, break/unicode/indicator 2-symbol strings, '
        'folding words, all leaves, container shapes incl. sharing/recursion) and of event streams (text pool x 6 style '
        'requests x contexts) is dumped / emitted by both back-ends under every option set within d deviations over 12 axes '
        '(allow_unicode, line_break, encoding, explicit_start, explicit_end, version, tags, indent 0..20, canonical, '
        'default_style, default_flow_style, width) and, on a smaller core, under the FULL product of the nine format axes; '
        'with and without an output stream (text and binary). Each output is held to seven independent oracles: '
        '(a) the library Reader accepts it, (b) ASCII-only without allow_unicode, (c) break discipline, (d) bytes/str + BOM '
        '+ same text as str mode, (e) markers/directives on every document as requested, (f) every block entry/key/value '
        'token that is first on its line sits at a multiple of the effective indent, (g) canonical output is accepted by the '
        'independent canonical-form parser O-canon and denotes the same events. non-trivial = option set differs from the '
        'default or the value needs quoting/escaping/anchoring')
ASSUMPTIONS = ['token columns for (f) come from yaml.scan (Python scanner; positions are the subject of C09)',
               'for values the expected events of (g) are obtained by representing the value with the dumper class\'s own '
               'representer and walking the node graph with an independent 25-line serializer (anchors compared up to renaming)',
               'LibYAML emitter is the binary linked from yaml/_yaml.c']

DUMPERS = (('py', yaml.SafeDumper, yaml.Dumper), ('c', yaml.CSafeDumper, yaml.CDumper))
INDENTS = [None, 0, 1, 2, 3, 4, 7, 9, 10, 20]
AXES = [
    ('allow_unicode', [None, True]),
    ('line_break', [None, '\n', '\r', '\r\n', 'x']),
    ('encoding', [None, 'utf-8', 'utf-16-le', 'utf-16-be']),
    ('explicit_start', [None, True]),
    ('explicit_end', [None, True]),
    ('version', [None, (1, 1), (1, 2)]),
    ('tags', [None, {'!e!': 'tag:e.com,2000:'}]),
    ('indent', INDENTS),
    ('canonical', [None, True]),
    ('default_style', [None, '"', "'", '|', '>']),
    ('default_flow_style', [False, True, None]),
    ('width', [None, 3, 5, 10, 20, 10 ** 6]),
]
FORMAT_AXES = AXES[:9]
EMIT_AXES = [a for a in AXES if a[0] in ('allow_unicode', 'line_break', 'indent', 'canonical', 'width')]


def bounds(tier, seed):
    q = tier == 'quick'
    return {'option_deviations_core': 2 if q else 3, 'full_product_core_values': 12 if q else 60, 'full_product_size': 19200,
            'full_product_slice': 'option sets with index % 8 == seed % 8' if q else 'all'}


def option_sets(axes, maxdev):
    yield {}
    for d in range(1, maxdev + 1):
        for combo in itertools.combinations(axes, d):
            for vals in itertools.product(*[a[1][1:] for a in combo]):
                yield {a[0]: v for a, v in zip(combo, vals)}


def option_product(axes):
    for vals in itertools.product(*[a[1] for a in axes]):
        yield {a[0]: v for a, v in zip(axes, vals) if v != a[1][0]}


# ---------------------------------------------------------------- value / event cores
def _shared():
    x = ['s']
    return {'a': x, 'b': [x, {'c': x}]}


def _rec():
    r = {'k': [1]}
    r['k'].append(r)
    return r


def value_core():
    out = [('str:' + repr(s), (lambda s=s: s)) for s in [''] + U.STR_SIGMA]
    two = ['a\n', '\nb', 'a\nb', ' a', 'a ', 'a\r', 'a\x85b', 'a\u2028b', 'é\n', 'a\tb', '\ta', 'a: b', '- a', '# a', "a'b", 'a"b', 'a\\b',
           'aaa bbb ccc ddd eee', 'aaa\nbbb\n\nccc\n', '  x\n y\n', 'x\n\n', '\U0001F600\ufeff', '\ufffe', 'a\x07b', 'yes', '1', '~', '<<', '1:30']
    out += [('str:' + repr(s), (lambda s=s: s)) for s in two]
    out += [('bnd:' + repr(s), (lambda s=s: [s, 'a' + s + 'b', {s + 'k': s}])) for s in U.BOUNDARY]
    out += [('str-in:' + repr(s), (lambda s=s: {'k': [s, {s: s}], 'j': {'n': [[s]]}})) for s in ['x', 'a\nb', 'é', ' lead', 'aaa bbb ccc ddd', '', 'k' * 130, '\U0001F600' * 103, '\u20ac' * 127]]
    out += [('leaf:%d' % i, (lambda v=v: v)) for i, v in enumerate(U.LEAVES[:31])]
    out += [('leaves-list', lambda: list(U.LEAVES)), ('keys', lambda: {k: i for i, k in enumerate(U.KEYABLE)}), ('set', lambda: set(U.KEYABLE[:8])),
            ('shared', _shared), ('rec', _rec), ('empty-list', lambda: []), ('empty-dict', lambda: {}), ('nested-seq', lambda: [[1, [2, [3]]], [[4]]]),
            ('seq-of-maps', lambda: [{'a': 1, 'b': [1, 2]}, {'c': {'d': {'e': [1]}}}]), ('map-of-seqs', lambda: {'a': [1, [2]], 'b': {'c': [3]}, 'long' * 40: 1}),
            ('complex-keys', lambda: {(1, 2) if False else 'k\nl': [1], 'k' * 200: {'x': 'y'}})]
    seen = set()
    return [(n, f) for n, f in out if not (n in seen or seen.add(n))]


SMALL_CORE = ['str:\'\'', "str:'a'", "str:'\\n'", "str:'é'", "str:'a\\nb'", "str:'aaa bbb ccc ddd eee'", "str-in:'a\\nb'", "str-in:'é'", 'leaves-list', 'shared', 'seq-of-maps', 'map-of-seqs']

EV_TEXTS = ['', 'x', 'a b', ' lead', 'multi\nline', 'é', '- x', 'k: v', 'w' * 130, '\x07', 'trail ', '\n', 'aaa bbb ccc ddd', 'a\x85b', 'a\u2028', '\U0001F600']
EV_CTX = ['root', 'bseq', 'bmap-key', 'bmap-val', 'fmap-val', 'seq-in-seq', 'deep5', 'bmap-key2', 'seq-of-map']


def event_core():
    out = []
    for t in EV_TEXTS:
        for st in (None, "'", '"', '|', '>'):
            for c in EV_CTX:
                out.append(E.stream(E.doc(E.in_context(c, E.S(t, style=st)))))
    tg = (('!e!', 'tag:e.com,2000:'),)
    out.append(E.stream(E.doc([E.S('v', tag='tag:e.com,2000:t', implicit=(False, False))], explicit=True, version=(1, 1), tags=tg),
                        E.doc(E.seq([E.seq([[E.S('1')]], anchor='a', tag='!l', implicit=False), [('ALIAS', 'a')]]), tags=tg, end_explicit=True)))
    out.append(E.stream(E.doc([E.S('v', tag='tag:e.com,2000:t', implicit=(False, False))], explicit=True, tags=tg),
                        E.doc(E.seq([[E.S('w', tag='tag:e.com,2000:t', implicit=(False, False))], [E.S('x', tag='tag:yaml.org,2002:str', implicit=(False, False))]]), explicit=True),
                        E.doc([E.S('y', tag='!local', implicit=(False, False))], explicit=True, tags=(('!e!', 'tag:other.org,2011:'),))))
    out.append(E.stream(E.doc(E.mapping([(E.seq([[E.S('k')]]), E.mapping([([E.S('a')], [E.S('b', tag='tag:é.com,2000:x', implicit=(False, False))])]))]))))
    return out


# ---------------------------------------------------------------- oracles
def effective_indent(n):
    return n if isinstance(n, int) and 2 <= n <= 9 else 2


def expected_break(lb):
    return lb if lb in ('\r', '\n', '\r\n') else '\n'


def check_text(T, sub, case, text, opts, want_events=None, doc_count=None):
    """oracles (a) (b) (c) (e) (f) (g) on the decoded text"""
    body = text[1:] if text.startswith('\ufeff') else text
    # (a) the library's own reader accepts it
    try:
        r = Reader(text)
        while r.peek() != '\0':
            r.forward()
    except ReaderError as e:
        T.violation(sub, 'a-reader-rejects', case, detail='Reader rejects the output %r: %s' % (_short(text), str(e)[:120]))
        return
    # (b) ASCII only unless allow_unicode
    if not opts.get('allow_unicode'):
        bad = [c for c in body if not (' ' <= c <= '~' or c in '\r\n')]
        if bad:
            T.violation(sub, 'b-non-ascii-without-allow-unicode', case, detail='output %r contains %r' % (_short(text), bad[:5]))
    # (c) break discipline
    lb = expected_break(opts.get('line_break'))
    if lb == '\r' and '\n' in body:
        T.violation(sub, 'c-line-break', case, detail="line_break='\\r' requested but output %r contains LF" % _short(text))
    elif lb == '\n' and '\r' in body:
        T.violation(sub, 'c-line-break', case, detail='line_break LF (requested %r) but output %r contains CR' % (opts.get('line_break'), _short(text)))
    elif lb == '\r\n' and ('\r' in body.replace('\r\n', '') or '\n' in body.replace('\r\n', '')):
        T.violation(sub, 'c-line-break', case, detail='CRLF requested but output %r has a lone CR or LF' % _short(text))
    # parse back (Python pipeline)
    try:
        evs = E.describe_all(yaml.parse(text, Loader=yaml.Loader))
    except yaml.YAMLError as e:
        T.violation(sub, 'unparsable-output', case, detail='output %r: %s' % (_short(text), str(e).replace('\n', ' ')[:160]))
        return
    # (e) markers and directives on every document
    ds = [e for e in evs if e[0] == 'DS']
    de = [e for e in evs if e[0] == 'DE']
    if doc_count is not None and len(ds) != doc_count:
        T.violation(sub, 'e-document-count', case, detail='output %r has %d documents, %d were dumped' % (_short(text), len(ds), doc_count))
    if 'explicit_start' in opts or 'version' in opts or 'tags' in opts or 'explicit_end' in opts:
        for i, d in enumerate(ds):
            if opts.get('explicit_start') and not d[1]:
                T.violation(sub, 'e-explicit-start', case, detail='document %d of %r has no explicit start' % (i, _short(text)))
            if opts.get('version') and d[2] != tuple(opts['version']):
                T.violation(sub, 'e-version', case, detail='document %d of %r has version %r, requested %r' % (i, _short(text), d[2], opts['version']))
            if opts.get('tags') and dict(d[3] or ()) != opts['tags']:
                T.violation(sub, 'e-tags', case, detail='document %d of %r has %%TAG %r, requested %r' % (i, _short(text), d[3], opts['tags']))
        for i, d in enumerate(de):
            if opts.get('explicit_end') and not d[1]:
                T.violation(sub, 'e-explicit-end', case, detail='document %d of %r has no explicit end' % (i, _short(text)))
    # (f) indentation of block entries
    if not opts.get('canonical'):
        ind = effective_indent(opts.get('indent'))
        if ind != 1:
            try:
                depth = 0
                for t in yaml.scan(text, Loader=yaml.Loader):
                    n = type(t).__name__
                    if n in ('FlowSequenceStartToken', 'FlowMappingStartToken'):
                        depth += 1
                    elif n in ('FlowSequenceEndToken', 'FlowMappingEndToken'):
                        depth -= 1
                    elif depth == 0 and n in ('BlockEntryToken', 'KeyToken', 'ValueToken'):
                        m = t.start_mark
                        line_start = text.rfind('\n', 0, m.index) + 1
                        line_start = max(line_start, text.rfind('\r', 0, m.index) + 1)
                        if text[line_start:m.index].strip(' ') == '' and m.column % ind != 0:
                            T.violation(sub, 'f-indent', case, detail='%s at line %d column %d is first on its line; effective indent is %d; output %r'
                                        % (n, m.line, m.column, ind, _short(text)))
                            break
            except yaml.YAMLError:
                pass
    # (g) canonical form
    if opts.get('canonical'):
        try:
            cev = canon.parse(text)
        except canon.CanonError as e:
            T.violation(sub, 'g-not-canonical', case, detail='O-canon rejects %r: %s' % (_short(text), e))
            return
        if want_events is not None:
            why = equiv.equiv(rename_anchors(want_events), rename_anchors(cev))
            if why:
                T.violation(sub, 'g-canonical-denotes-other-events', case, detail='O-canon reads %r differently: %s' % (_short(text), why))
        why = equiv.equiv(rename_anchors(cev), rename_anchors(evs))
        if why and 'tag' not in why:
            T.violation(sub, 'g-canonical-vs-library-parser', case, detail='O-canon and yaml.parse disagree on %r: %s' % (_short(text), why))


def rename_anchors(evs):
    m = {}
    out = []
    for e in evs:
        if e[0] in ('SCALAR', 'SEQ_S', 'MAP_S') and e[1] is not None:
            if e[1] not in m:
                m[e[1]] = 'A%d' % len(m)
            e = (e[0], m[e[1]]) + tuple(e[2:])
        elif e[0] == 'ALIAS':
            e = ('ALIAS', m.get(e[1], '?' + str(e[1])))
        out.append(e)
    return out


def node_events(nodes):
    """independent serializer: node graphs -> expected event descriptors (anchors where a node is reached twice)"""
    out = [('SS',)]
    for root in nodes:
        count = {}

        def scan(nd):
            count[id(nd)] = count.get(id(nd), 0) + 1
            if count[id(nd)] > 1:
                return
            if isinstance(nd, yaml.SequenceNode):
                for c in nd.value: scan(c)
            elif isinstance(nd, yaml.MappingNode):
                for k, v in nd.value: scan(k); scan(v)
        scan(root)
        names = {}
        done = set()

        def walk(nd):
            if id(nd) in done:
                out.append(('ALIAS', names[id(nd)]))
                return
            done.add(id(nd))
            a = None
            if count[id(nd)] > 1:
                a = names[id(nd)] = 'n%d' % len(names)
            if isinstance(nd, yaml.ScalarNode):
                out.append(('SCALAR', a, nd.tag, (False, False), nd.value, None))
            elif isinstance(nd, yaml.SequenceNode):
                out.append(('SEQ_S', a, nd.tag, False, True))
                for c in nd.value: walk(c)
                out.append(('SEQ_E',))
            else:
                out.append(('MAP_S', a, nd.tag, False, True))
                for k, v in nd.value: walk(k); walk(v)
                out.append(('MAP_E',))
        out.append(('DS', True, None, None))
        walk(root)
        out.append(('DE', False))
    out.append(('SE',))
    return out


def _short(x, n=200):
    x = x if isinstance(x, str) else repr(x)
    return x if len(x) <= n else x[:n // 2] + ' ... ' + x[-n // 2:]


class BinSink:
    def __init__(self):
        self.parts = []

    def write(self, b):
        if not isinstance(b, bytes):
            raise TypeError('binary sink got %r' % type(b))
        self.parts.append(b)


class TextSink:
    encoding = None      # marks a text stream for the Python emitter

    def __init__(self):
        self.parts = []

    def write(self, s):
        if not isinstance(s, str):
            raise TypeError('text sink got %r' % type(s))
        self.parts.append(s)


def decode(T, sub, case, out, enc):
    """oracle (d): type and BOM of a no-stream result; returns text"""
    if enc is None:
        if not isinstance(out, str):
            T.violation(sub, 'd-type', case, detail='no encoding requested but dump returned %s' % type(out).__name__)
            return None
        return out
    if not isinstance(out, bytes):
        T.violation(sub, 'd-type', case, detail='encoding=%r requested but dump returned %s' % (enc, type(out).__name__))
        return None
    if enc.startswith('utf-16'):
        bom = codecs.BOM_UTF16_LE if enc == 'utf-16-le' else codecs.BOM_UTF16_BE
        if not out.startswith(bom):
            T.violation(sub, 'd-bom', case, detail='%s output does not start with its BOM: %r' % (enc, out[:8]))
            return None
        try:
            return out[2:].decode(enc)
        except UnicodeDecodeError as e:
            T.violation(sub, 'd-undecodable', case, detail='%s output does not decode: %s' % (enc, e))
            return None
    try:
        return out.decode(enc)
    except UnicodeDecodeError as e:
        T.violation(sub, 'd-undecodable', case, detail='%s output does not decode: %s' % (enc, e))
        return None


def check_value(T, sub, name, mk, opts, streams=False, dumpers=('py', 'c')):
    for dn, SafeD, FullD in DUMPERS:
        if dn not in dumpers:
            continue
        T.evaluations += 1
        case = {'value': name, 'options': opts, 'dumper': dn}
        if T.trace: T.begin(case)
        v = mk()
        try:
            out = yaml.dump(v, Dumper=SafeD, **opts)
        except Exception as e:
            T.violation(sub, 'dump-exception:' + type(e).__name__, case, detail='%s(%s)' % (type(e).__name__, str(e)[:200]))
            continue
        enc = opts.get('encoding')
        text = decode(T, sub, case, out, enc)
        if text is None:
            continue
        want = None
        if opts.get('canonical'):
            rep = yaml.representer.SafeRepresenter(default_style=opts.get('default_style'), default_flow_style=opts.get('default_flow_style', False),
                                                   sort_keys=opts.get('sort_keys', True))
            want = node_events([rep.represent_data(mk())])
            if opts.get('version'):
                want[1] = ('DS', True, tuple(opts['version']), want[1][3])
            if opts.get('tags'):
                want[1] = ('DS', True, want[1][2], tuple(sorted(opts['tags'].items())))
        check_text(T, sub, case, text, opts, want_events=want, doc_count=1)
        if enc is not None:
            # (d) same text as the str-mode output
            o2 = dict(opts)
            del o2['encoding']
            ref = yaml.dump(mk(), Dumper=SafeD, **o2)
            if ref != text:
                T.violation(sub, 'd-text-differs-from-str-mode', case, detail='decoded %r != str-mode %r' % (_short(text), _short(ref)))
        if streams:
            # with a stream: binary stream gets bytes in the encoding (default utf-8), text stream gets str
            b = BinSink()
            try:
                if enc is None:
                    raise StopIteration     # a binary stream needs an encoding; nothing to observe
                yaml.dump(mk(), b, Dumper=SafeD, **opts)
                got = b''.join(b.parts)
                e2 = enc or 'utf-8'
                t2 = got.decode(e2[:6] if e2.startswith('utf-16') else e2) if not e2.startswith('utf-16') else got[2:].decode(e2)
                if t2 != text:
                    T.violation(sub, 'd-binary-stream-text-differs', case, detail='binary stream got %r, no-stream text %r' % (_short(t2), _short(text)))
            except StopIteration:
                pass
            except Exception as e:
                T.violation(sub, 'd-binary-stream:' + type(e).__name__, case, detail=str(e)[:200])
            if enc is None:
                s = TextSink()
                try:
                    yaml.dump(mk(), s, Dumper=SafeD, **opts)
                    if ''.join(s.parts) != text:
                        T.violation(sub, 'd-text-stream-text-differs', case, detail='text stream got %r, no-stream text %r' % (_short(''.join(s.parts)), _short(text)))
                except Exception as e:
                    T.violation(sub, 'd-text-stream:' + type(e).__name__, case, detail=str(e)[:200])
        T.outcome((dn, text.count('\n') > 1, text[:3]))
    T.nontrivial += 1 if (opts or not name.startswith("str:'a'")) else 0


MULTI = [('two-plain', lambda: ['foo', 'bar']), ('three-mixed', lambda: [{'k': 1}, 'open', [1, 2]]), ('keep-then-plain', lambda: ['a\n\n', 'b']),
         ('empties', lambda: ['', None, {}]), ('same-twice', lambda: ['x y', 'x y', 'x y'])]


def check_multi(T, sub, name, mk, opts, dumpers=('py', 'c')):
    """dump_all of several documents: the per-output oracles must hold for every document of the stream"""
    for dn, SafeD, FullD in DUMPERS:
        if dn not in dumpers:
            continue
        T.evaluations += 1
        case = {'multi': name, 'options': opts, 'dumper': dn}
        if T.trace: T.begin(case)
        docs = mk()
        try:
            out = yaml.dump_all(docs, Dumper=SafeD, **opts)
        except Exception as e:
            T.violation(sub, 'dump-exception:' + type(e).__name__, case, detail='%s(%s)' % (type(e).__name__, str(e)[:200]))
            continue
        text = decode(T, sub, case, out, opts.get('encoding'))
        if text is None:
            continue
        want = None
        if opts.get('canonical'):
            rep = yaml.representer.SafeRepresenter(default_style=opts.get('default_style'), default_flow_style=opts.get('default_flow_style', False))
            want = node_events([rep.represent_data(d) for d in mk()])
            want = [(('DS', True, tuple(opts['version']) if opts.get('version') else None, tuple(sorted(opts['tags'].items())) if opts.get('tags') else None) if e[0] == 'DS' else e) for e in want]
        check_text(T, sub, case, text, opts, want_events=want, doc_count=len(docs))
        try:
            back = list(yaml.load_all(text, Loader=yaml.SafeLoader))
            if back != docs:
                T.violation(sub, 'e-documents-differ', case, detail='output %r loads as %r, dumped %r' % (_short(text), back, docs))
        except yaml.YAMLError as e:
            T.violation(sub, 'unparsable-output', case, detail='output %r: %s' % (_short(text), str(e).replace('\n', ' ')[:160]))
    T.nontrivial += 1


def check_events(T, sub, idx, ds, opts, dumpers=('py', 'c')):
    for dn, SafeD, FullD in DUMPERS:
        if dn not in dumpers:
            continue
        T.evaluations += 1
        case = {'event_case': idx, 'events': ds, 'options': opts, 'dumper': dn, 'emitter': dn}
        if T.trace: T.begin(case)
        try:
            text = yaml.emit(E.build_all(ds), Dumper=FullD, **opts)
        except Exception as e:
            T.violation(sub, 'emit-exception:' + type(e).__name__, case, detail='%s(%s)' % (type(e).__name__, str(e)[:200]))
            continue
        check_text(T, sub, case, text, opts, want_events=ds if opts.get('canonical') else None, doc_count=sum(1 for d in ds if d[0] == 'DS'))
    T.nontrivial += 1


# ---------------------------------------------------------------- plan
def plan(tier, seed):
    q = tier == 'quick'
    jobs = []
    nv = len(value_core())
    for i in range(nv):
        jobs.append(('val', i, 2 if q else 3))
    ne = len(event_core())
    for k in range(48):
        jobs.append(('ev', k, 48, 2 if q else 3))
    jobs += [('multi', i, 2 if q else 3) for i in range(len(MULTI))]
    nprod = 64
    for name in (SMALL_CORE if q else [n for n, _ in value_core()][::2]):
        for k in range(nprod):
            if not q or k % 8 == seed % 8:
                jobs.append(('prod', name, k, nprod))
    return jobs


def run_job(job, T):
    kind = job[0]
    if kind == 'val':
        name, mk = value_core()[job[1]]
        for i, o in enumerate(option_sets(AXES, job[2])):
            check_value(T, 'values', name, mk, o, streams=(i % 7 == 0))
        T.sample('values', {'value': name, 'options': o})
    elif kind == 'ev':
        _, k, np_, dev = job
        core = event_core()
        opts = list(option_sets(EMIT_AXES, dev))
        for i, ds in enumerate(core):
            if i % np_ != k:
                continue
            for o in opts:
                check_events(T, 'events', i, ds, o)
        T.sample('events', {'event_case': i, 'options': o})
    elif kind == 'multi':
        name, mk = MULTI[job[1]]
        for o in option_sets(AXES, job[2]):
            check_multi(T, 'multi-document', name, mk, o)
        T.sample('multi-document', {'multi': name, 'options': o})
    elif kind == 'prod':
        _, name, k, np_ = job
        mk = dict(value_core())[name]
        for i, o in enumerate(option_product(FORMAT_AXES)):
            if i % np_ != k:
                continue
            check_value(T, 'format-product', name, mk, o, streams=False)
        T.sample('format-product', {'value': name, 'options': o})
    else:
        raise ValueError(job)


def replay(sub, case, T):
    opts = dict(case.get('options') or {})
    if isinstance(opts.get('version'), list):
        opts['version'] = tuple(opts['version'])
    if 'multi' in case:
        check_multi(T, sub, case['multi'], dict(MULTI)[case['multi']], opts, dumpers=(case['dumper'],))
    elif 'value' in case:
        check_value(T, sub, case['value'], dict(value_core())[case['value']], opts, streams=True, dumpers=(case['dumper'],))
    else:
        check_events(T, sub, case.get('event_case'), E.fix(case['events']), opts, dumpers=(case['dumper'],))


def snippet(sub, case):
    return '# ./check C15 --replay <this file>   value/events=%r options=%r dumper=%s' % (case.get('value', case.get('events')), case.get('options'), case.get('dumper'))


def selftest():
    canon.selftest()
    equiv.selftest()
    assert len(list(option_product(FORMAT_AXES))) == 19200
    names = [n for n, _ in value_core()]
    assert len(set(names)) == len(names) and all(n in names for n in SMALL_CORE), [n for n in SMALL_CORE if n not in names]
    x = yaml.SequenceNode('t', [])
    ev = node_events([yaml.SequenceNode('t2', [x, x])])
    assert [e[0] for e in ev] == ['SS', 'DS', 'SEQ_S', 'SEQ_S', 'SEQ_E', 'ALIAS', 'SEQ_E', 'DE', 'SE'] and ev[3][1] == ev[5][1] is not None
    assert rename_anchors([('SEQ_S', 'id001', None, True, True), ('ALIAS', 'id001')]) == rename_anchors([('SEQ_S', 'zz', None, True, True), ('ALIAS', 'zz')])
