"""C12 - multi-document streams keep their document boundaries (E1)."""
import io, itertools
import yaml
from .. import universe as U, events as E
from ..oracles import graph, equiv

ID = 'C12'
LEVEL = 'exploration'
RULE = ('all lists of 0..k documents over pools of root shapes (values for dump_all, node graphs for serialize_all, event '
        'documents with every implicit/explicit marker combination for emit): empty / open-ended / keep-chomped block / '
        'folded-keep / quoted scalars, empty and alias-only collections, shared and recursive containers, nested block '
        'collections, long keys, documents with directives; x the full product of {explicit_start, explicit_end, version, '
        'tags, canonical} x <=1 deviation in {default_style, line_break, width, indent, allow_unicode} x {Python, LibYAML} '
        'dumper x {Python, LibYAML} loader. Oracle: exactly n documents come back, document i equals input i (O-graph / '
        'node bisimulation / O-equiv), and the text that has reached the stream when document i has been handed over is '
        'identical for every continuation of the list (all continuations are enumerated). non-trivial = list with >=2 '
        'documents or a root that is empty, open-ended, keep-chomped, aliased or directive-carrying')
ASSUMPTIONS = ['"text written for a document" is observed at the moment the library asks for the next document (dump_all / '
               'serialize_all pull from a generator) or returns from emit(DocumentEndEvent)',
               'LibYAML emitter is the binary linked from yaml/_yaml.c']

DUMPERS = (('py', yaml.SafeDumper, yaml.Dumper), ('c', yaml.CSafeDumper, yaml.CDumper))
LOADERS = (('py', yaml.SafeLoader, yaml.Loader), ('c', yaml.CSafeLoader, yaml.CLoader))


def bounds(tier, seed):
    q = tier == 'quick'
    return {'max_documents_full_pool': 2 if q else 3, 'max_documents_core_pool': 3 if q else 4, 'core_pool': 5,
            'option_product': 'explicit_start x explicit_end x version x tags x canonical (48) x (default + 19 single deviations)'}


# ---------------------------------------------------------------- pools
def _shared():
    x = [1]
    return [x, x]


def _rec():
    r = []
    r.append(r)
    return r


VALUES = [
    ('none', lambda: None), ('open', lambda: 'open'), ('keep', lambda: 'a\n\n'), ('emptystr', lambda: ''), ('elist', lambda: []),
    ('emap', lambda: {}), ('shared', _shared), ('rec', _rec), ('nested', lambda: {'k': [1, {'j': 'v'}], 'l': 'open'}), ('longkey', lambda: {'k' * 130: 'v'}), ('esckey', lambda: {'\U0001F600' * 103: 'v'}),
    ('quoted', lambda: 'a: b'), ('trail', lambda: 'x\n\n\n'), ('marker-start', lambda: '---'), ('marker-end', lambda: '...'), ('marker-text', lambda: '--- x'),
    ('marker-line', lambda: 'intro\n--- not a marker'), ('marker-line-end', lambda: 'intro\n... not a marker\n'), ('marker-folded', lambda: 'word ' * 18 + '... and --- more ' + 'word ' * 18),
]
CORE = [0, 1, 2, 4, 6]
NODE_CORE = [0, 1, 2, 6, 11, 12]


def _n_null():
    return yaml.ScalarNode('tag:yaml.org,2002:null', '')


def _n_shared():
    s = yaml.SequenceNode('tag:yaml.org,2002:seq', [yaml.ScalarNode('tag:yaml.org,2002:int', '1')])
    return yaml.SequenceNode('tag:yaml.org,2002:seq', [s, s])


def _n_rec():
    s = yaml.SequenceNode('tag:yaml.org,2002:seq', [])
    s.value.append(s)
    return s


def _n_map():
    S = lambda v, t='str', st=None: yaml.ScalarNode('tag:yaml.org,2002:' + t, v, style=st)
    return yaml.MappingNode('tag:yaml.org,2002:map', [(S('k'), yaml.SequenceNode('tag:yaml.org,2002:seq', [S('1', 'int'), S('')])), (S('l'), S('open'))])


_LEAF = yaml.ScalarNode('tag:yaml.org,2002:str', 'leaf')
_SUBSEQ = yaml.SequenceNode('tag:yaml.org,2002:seq', [yaml.ScalarNode('tag:yaml.org,2002:int', '7')])


NODES = [
    ('null-empty', _n_null), ('open', lambda: yaml.ScalarNode('tag:yaml.org,2002:str', 'open')),
    ('keep', lambda: yaml.ScalarNode('tag:yaml.org,2002:str', 'a\n\n', style='|')),
    ('str-empty', lambda: yaml.ScalarNode('tag:yaml.org,2002:str', '')), ('eseq', lambda: yaml.SequenceNode('tag:yaml.org,2002:seq', [])),
    ('emap', lambda: yaml.MappingNode('tag:yaml.org,2002:map', [])), ('shared', _n_shared), ('rec', _n_rec), ('map', _n_map),
    ('foldkeep', lambda: yaml.ScalarNode('tag:yaml.org,2002:str', 'a b\n\n', style='>')),
    ('local', lambda: yaml.ScalarNode('!local', '')),
    # node objects that are reused in several documents of one stream (each document must still stand alone)
    ('leaf-in-seq', lambda: yaml.SequenceNode('tag:yaml.org,2002:seq', [_LEAF, _SUBSEQ])),
    ('leaf-in-map', lambda: yaml.MappingNode('tag:yaml.org,2002:map', [(yaml.ScalarNode('tag:yaml.org,2002:str', 'k'), _LEAF), (yaml.ScalarNode('tag:yaml.org,2002:str', 'j'), _SUBSEQ)])),
    ('leaf-root', lambda: _LEAF),
]

EV_ROOTS = [
    [E.S('')], [E.S('open')], [E.S('a\n\n', style='|')], [E.S('a b\n\n', style='>')], E.seq([], flow=True), E.mapping([]),
    E.seq([E.seq([[E.S('1')]], anchor='a'), [('ALIAS', 'a')]]), E.seq([[('ALIAS', 'r')]], anchor='r'), [E.S('', style="'")],
    E.mapping([([E.S('k')], [E.S('')])]),
    [E.S('v', tag='tag:e.com,2000:t', implicit=(False, False))],
]
EV_MARKS = [(False, False), (True, False), (False, True), (True, True)]     # (start explicit, end explicit)
EV_DIRS = [(None, None), ((1, 1), None), (None, (('!e!', 'tag:e.com,2000:'),))]


def opt_product():
    base = []
    for es, ee, ver, tg, can in itertools.product((None, True), (None, True), (None, (1, 1), (1, 2)), (None, {'!e!': 'tag:e.com,2000:'}), (None, True)):
        o = {}
        if es: o['explicit_start'] = True
        if ee: o['explicit_end'] = True
        if ver: o['version'] = ver
        if tg: o['tags'] = tg
        if can: o['canonical'] = True
        base.append(o)
    devs = [{}] + [{'default_style': s} for s in ('"', "'", '|', '>')] + [{'line_break': b} for b in ('\n', '\r', '\r\n', 'x')] + \
           [{'width': w} for w in (3, 5, 10, 20, 10 ** 6)] + [{'indent': i} for i in (1, 2, 3, 9, 10)] + [{'allow_unicode': True}]
    for b in base:
        for d in devs:
            o = dict(b)
            o.update(d)
            yield o


EMIT_OPTS = [{}] + [{'canonical': True}] + [{'line_break': b} for b in ('\r', '\r\n')] + [{'width': 3}, {'indent': 1}, {'indent': 9}, {'allow_unicode': True}]


def node_canon(nodes):
    ids = {}

    def walk(nd):
        if id(nd) in ids:
            return ('ref', ids[id(nd)])
        ids[id(nd)] = len(ids)
        n = type(nd).__name__
        if n == 'ScalarNode':
            return ('S', nd.tag, nd.value)
        if n == 'SequenceNode':
            return ('Q', nd.tag, tuple(walk(c) for c in nd.value))
        return ('M', nd.tag, tuple((walk(k), walk(v)) for k, v in nd.value))
    return [walk(nd) for nd in nodes]


class Recorder:
    """generator wrapper: notes what the stream holds each time the library asks for the next document"""

    def __init__(self, docs, out):
        self.docs = docs
        self.out = out
        self.marks = []

    def __iter__(self):
        for i, d in enumerate(self.docs):
            if i:
                self.marks.append(self.out.getvalue())
            yield d
        if self.docs:
            self.marks.append(self.out.getvalue())


def _short(x, n=260):
    x = x if isinstance(x, str) else repr(x)
    return x if len(x) <= n else x[:n // 2] + ' ... ' + x[-n // 2:]


def check_list(T, sub, level, ids, opts, prefix_db, dumpers=('py', 'c')):
    """level in values|nodes|events; ids = tuple of pool indices (events: (root, marks, dirs) triples)"""
    for dn, SafeD, FullD in DUMPERS:
        if dn not in dumpers:
            continue
        T.evaluations += 1
        case = {'level': level, 'docs': list(ids), 'options': opts, 'dumper': dn}
        if T.trace: T.begin(case)
        out = io.StringIO()
        try:
            if level == 'values':
                docs = [VALUES[i][1]() for i in ids]
                rec = Recorder(docs, out)
                yaml.dump_all(rec, out, Dumper=SafeD, **opts)
                marks = rec.marks
                want = [graph.canon(d, ordered=False) for d in docs]
            elif level == 'nodes':
                # the same pool index yields the SAME node object within one list (a caller may serialize one node twice)
                cache = {}
                docs = [cache.setdefault(i, NODES[i][1]()) for i in ids]
                rec = Recorder(docs, out)
                yaml.serialize_all(rec, out, Dumper=FullD, **opts)
                marks = rec.marks
                want = [node_canon([d])[0] for d in docs]      # each document on its own: sharing never crosses a document boundary
            else:
                evs = [('SS',)]
                for r, m, d in ids:
                    evs += E.doc(EV_ROOTS[r], explicit=EV_MARKS[m][0], version=EV_DIRS[d][0], tags=EV_DIRS[d][1], end_explicit=EV_MARKS[m][1])
                evs.append(('SE',))
                em = FullD(out, **opts)
                marks = []
                for d in evs:
                    em.emit(E.build(d))
                    if d[0] == 'DE':
                        marks.append(out.getvalue())
                if hasattr(em, 'dispose'):
                    em.dispose()
                want = evs
        except Exception as e:
            T.violation(sub, 'dump-exception:' + type(e).__name__, case, detail='%s %s raised %s(%s)' % (dn, level, type(e).__name__, str(e)[:200]))
            continue
        text = out.getvalue()
        # prefix stability: text present when document i has been handed over must not depend on what follows
        for i, m in enumerate(marks):
            key = (dn, tuple(ids[:i + 1]))
            old = prefix_db.get(key)
            if old is None:
                prefix_db[key] = (m, tuple(ids))
            elif old[0] != m:
                T.violation(sub, 'prefix-depends-on-continuation', case,
                            detail='%s %s: after document %d the stream holds %r when the list is %r but %r when it is %r'
                                   % (dn, level, i, _short(m, 160), list(ids), _short(old[0], 160), list(old[1])))
            if not text.startswith(m):
                T.violation(sub, 'written-text-not-a-prefix', case, detail='%s %s: text at document %d %r is not a prefix of the final text %r' % (dn, level, i, _short(m, 160), _short(text, 160)))
        for ln, SafeL, FullL in LOADERS:
            try:
                if level == 'values':
                    back = list(yaml.load_all(text, Loader=SafeL))
                    got = [graph.canon(d, ordered=False) for d in back]
                elif level == 'nodes':
                    back = list(yaml.compose_all(text, Loader=FullL))
                    got = [node_canon([d])[0] for d in back]
                else:
                    got = E.describe_all(yaml.parse(text, Loader=FullL))
            except Exception as e:
                T.violation(sub, 'load-rejects:' + type(e).__name__, case, detail='%s wrote %r; %s loader raised %s(%s)'
                            % (dn, _short(text), ln, type(e).__name__, str(e).replace('\n', ' ')[:200]))
                continue
            if level == 'events':
                why = equiv.equiv(want, got)
                nd_got = sum(1 for g in got if g[0] == 'DS')
                if why:
                    T.violation(sub, 'document-count' if nd_got != len(ids) else 'document-differs', case,
                                detail='%s wrote %r; %s parser: %s' % (dn, _short(text), ln, why))
            else:
                if len(got) != len(want):
                    T.violation(sub, 'document-count', case, detail='%s wrote %r; %s loader returned %d documents, expected %d' % (dn, _short(text), ln, len(got), len(want)))
                elif got != want:
                    k = [i for i in range(len(got)) if got[i] != want[i]][0]
                    T.violation(sub, 'document-differs', case, detail='%s wrote %r; %s loader: document %d is %s, expected %s'
                                % (dn, _short(text), ln, k, _short(repr(got[k]), 200), _short(repr(want[k]), 200)))
        T.outcome((level, len(ids), text.count('---'), text.count('...')))
    if len(ids) >= 2 or level == 'events' or (ids and ids[0] in (0, 1, 2, 3, 6, 7)):
        T.nontrivial += 1


def lists(pool_n, core, kfull, kcore, first=None):
    """all id tuples: length <= kfull over range(pool_n), plus length kfull+1..kcore over core; optionally restricted by first element"""
    if first is None:
        yield ()
    for n in range(1, kfull + 1):
        for t in itertools.product(range(pool_n), repeat=n):
            if first is None or t[0] == first:
                yield t
    for n in range(kfull + 1, kcore + 1):
        for t in itertools.product(core, repeat=n):
            if first is None or t[0] == first:
                yield t


# documents produced on the fly: the same object yielded again after it was changed, and short-lived temporaries whose
# ids are re-used - every document must be what the value was when it was handed over
def _g_mutated_list():
    x = [1]
    yield x, [1]
    x.append(2)
    yield x, [1, 2]
    x.append([3])
    yield x, [1, 2, [3]]
    yield 'between', 'between'
    x.clear()
    yield x, []


def _g_mutated_dict():
    d = {'a': 1}
    s = [d, d]
    yield s, None
    d['b'] = s[:1]
    yield s, None
    yield d, None
    del d['b']
    yield d, {'a': 1}


def _g_temporaries():
    for i in range(40):
        yield [i, {'k': [i]}], [i, {'k': [i]}]


def _g_temporaries_shared():
    for i in range(30):
        t = [i]
        yield {'a': t, 'b': t}, None


def _g_same_scalars():
    s = 'text'
    for i in range(3):
        yield [s, s], ['text', 'text']


GENERATED = [('mutated-list', _g_mutated_list), ('mutated-dict', _g_mutated_dict), ('temporaries', _g_temporaries), ('temporaries-shared', _g_temporaries_shared),
             ('same-scalars', _g_same_scalars)]


def check_generated(T, name, gen):
    for dn, SafeD, FullD in DUMPERS:
        for o in ({}, {'default_flow_style': True}, {'explicit_start': True, 'explicit_end': True}, {'canonical': True}):
            T.evaluations += 1
            case = {'generated': name, 'options': o, 'dumper': dn}
            want = []

            def feed():
                for value, expect in gen():
                    want.append(graph.canon(value, ordered=False) if expect is None else graph.canon(expect, ordered=False))
                    yield value
            try:
                text = yaml.dump_all(feed(), Dumper=SafeD, **o)
                got = [graph.canon(d, ordered=False) for d in yaml.load_all(text, Loader=yaml.SafeLoader)]
            except Exception as e:
                T.violation('generated', 'exception:' + type(e).__name__, case, detail=str(e).replace('\n', ' ')[:200])
                continue
            if len(got) != len(want):
                T.violation('generated', 'document-count', case, detail='%s wrote %r: %d documents, %d were handed over' % (dn, _short(text), len(got), len(want)))
            elif got != want:
                k = [i for i in range(len(got)) if got[i] != want[i]][0]
                T.violation('generated', 'document-differs', case, detail='%s: document %d of %r is %s; when it was handed over the value was %s' % (dn, k, _short(text), _short(repr(got[k])), _short(repr(want[k]))))
    T.nontrivial += 1


def plan(tier, seed):
    q = tier == 'quick'
    kf, kc = (2, 3) if q else (3, 4)
    nopt = len(list(opt_product()))
    jobs = []
    OC = 24     # option chunks
    for first in range(-1, len(VALUES)):
        for oc in range(OC):
            jobs.append(('values', first, kf, kc, oc, OC))
    for first in range(-1, len(NODES)):
        for oc in range(OC):
            # quick: the longer lists over the node core only for two option chunks rotated by the seed
            jobs.append(('nodes', first, kf, kc if (not q or oc % 12 == seed % 12) else kf, oc, OC))
    for r in range(len(EV_ROOTS)):
        for m in range(len(EV_MARKS)):
            jobs.append(('events', r, m, 2 if q else 3))
    jobs += [('generated', k) for k in range(len(GENERATED))]
    return jobs


def run_job(job, T):
    kind = job[0]
    if kind in ('values', 'nodes'):
        _, first, kf, kc, oc, OC = job
        pool = VALUES if kind == 'values' else NODES
        allopts = list(opt_product())
        ls = [()] if first < 0 else list(lists(len(pool), CORE if kind == 'values' else NODE_CORE, kf, kc, first))
        if kf <= 2 and kind == 'values':
            # quick: the second document of a two-document list ranges over a 10-shape subset
            ls = [t for t in ls if len(t) != 2 or t[1] in (0, 1, 2, 3, 4, 6, 10, 12, 15, 17)]
        for oi, o in enumerate(allopts):
            if oi % OC != oc:
                continue
            if kind == 'values' or 'default_style' not in o:
                db = {}
                for ids in ls:
                    check_list(T, kind, kind, ids, o, db)
        T.sample(kind, {'docs': [pool[i][0] for i in ls[-1]], 'options': o})
    elif kind == 'generated':
        name, gen = GENERATED[job[1]]
        check_generated(T, name, gen)
        T.sample('generated', {'generated': name})
    elif kind == 'events':
        _, r, m, k = job
        first = (r, m)
        rest_pool = [(rr, mm, dd) for rr in range(len(EV_ROOTS)) for mm in range(len(EV_MARKS)) for dd in range(len(EV_DIRS))]
        core_rest = [(rr, mm, dd) for rr in (0, 1, 2, 6, 10) for mm in (0, 3) for dd in (0, 1)]
        for o in EMIT_OPTS:
            db = {}
            for d in range(len(EV_DIRS)):
                f = (r, m, d)
                check_list(T, 'events', 'events', (f,), o, db)
                for x in rest_pool:
                    check_list(T, 'events', 'events', (f, x), o, db)
                if k >= 3:
                    for x in core_rest:
                        for y in core_rest:
                            check_list(T, 'events', 'events', (f, x, y), o, db)
                else:
                    for x in core_rest[:6]:
                        for y in core_rest[:6]:
                            check_list(T, 'events', 'events', (f, x, y), o, db)
        T.sample('events', {'first': f, 'options': o})
    else:
        raise ValueError(job)


def replay(sub, case, T):
    if 'generated' in case:
        check_generated(T, case['generated'], dict(GENERATED)[case['generated']])
        return
    opts = dict(case.get('options') or {})
    if isinstance(opts.get('version'), list):
        opts['version'] = tuple(opts['version'])
    ids = case['docs']
    level = case['level']
    ids = tuple(tuple(i) if isinstance(i, (list, tuple)) else i for i in ids)
    db = {}
    # enumerate the one-step shorter / sibling continuations too so that prefix stability is re-evaluated
    if level == 'events':
        sibs = [ids[:n] for n in range(1, len(ids))] + [ids[:-1] + ((r, 0, 0),) for r in range(len(EV_ROOTS))]
    else:
        pool = VALUES if level == 'values' else NODES
        sibs = [ids[:n] for n in range(1, len(ids))] + [ids[:-1] + (r,) for r in range(len(pool))] + [ids + (r,) for r in range(len(pool))]
    Q = engine_tally()
    for s in sibs:
        if s:
            check_list(Q, sub, level, s, opts, db, dumpers=(case.get('dumper', 'py'),))
    check_list(T, sub, level, ids, opts, db, dumpers=(case.get('dumper', 'py'),))


def engine_tally():
    from .. import engine
    return engine.Tally()


def snippet(sub, case):
    return '# ./check C12 --replay <this file>; level=%s docs=%r options=%r dumper=%s' % (case['level'], case['docs'], case.get('options'), case.get('dumper'))


def selftest():
    graph.selftest()
    equiv.selftest()
    assert len(list(opt_product())) == 48 * 20
    a = node_canon([_n_shared()])
    b = node_canon([yaml.SequenceNode('tag:yaml.org,2002:seq', [yaml.ScalarNode('tag:yaml.org,2002:int', '1')])])
    assert a != b and node_canon([_n_rec()])[0][2] == (('ref', 0),)
