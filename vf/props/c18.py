"""C18 - streams are consumed incrementally and documents delivered as they complete (E2 over stream shapes x read schedules)."""
import gc, itertools, weakref
import yaml

ID = 'C18'
LEVEL = 'exploration'
RULE = ('multi-document streams built from every tuple of k<=K document sizes over {empty, 10 units, half a refill block, one '
        'block -1/+1, 2.5 blocks, 3 blocks} (block = the largest size the back-end passes to read(): 4096 Python, measured for '
        'LibYAML), followed by a tail of 0 / 10 / 100 blocks of further documents, ASCII and 2-byte-character content, '
        'delivered through instrumented text and binary streams under read schedules {default, every read short by 1 / 7 / '
        'half a block}; x {scan, parse, compose_all, load_all} x {Python, LibYAML}. '
        'The stream records how many units it has handed out at the moment each item is yielded. Oracle: (1) for every yielded '
        'token / event / node / object, units handed out <= units up to the end of that item + 2 blocks + a few units of '
        'look-ahead; (2) the consumption at each yield is identical for every tail length; (3) in a stream good_1..good_j bad, '
        'with bad malformed at scanner / parser / composer / constructor level, exactly j documents are delivered before the '
        'exception (reader-level malformation: the same when it lies more than two blocks beyond the end of good_j); '
        '(4) abandoning the iteration (close() or dropping the generator, before or after the first item) calls dispose() '
        'exactly once, triggers no further read() and leaves the loader unreachable. non-trivial = every stream (>= 2 documents or a tail)')
ASSUMPTIONS = ['"two refill blocks" is measured against the largest read size the back-end itself requests',
               'for load_all objects (no marks) document end offsets come from the construction of the stream text',
               'reader-level errors closer than two blocks to the end of the last good document may legitimately surface first (they are inside the permitted look-ahead)']

BACKENDS = (('py', yaml.SafeLoader), ('c', yaml.CSafeLoader))
APIS = ('scan', 'parse', 'compose_all', 'load_all')
FN = {'scan': yaml.scan, 'parse': yaml.parse, 'compose_all': yaml.compose_all, 'load_all': yaml.load_all}
SLACK = 8


def bounds(tier, seed):
    q = tier == 'quick'
    return {'documents_per_stream': 3 if q else 4, 'sizes': ['empty', 10, 'block/2', 'block-1', 'block+1', '2.5 blocks', '3 blocks + 5'], 'single_token_documents': ['block+1', '3 blocks + 5', '5 blocks + 3', '9 blocks + 1'], 'tails_in_blocks': [0, 10] if q else [0, 10, '100 (behind one or two documents)'],
            'schedules': ['default', 'every read short by 1', 'short by 7', 'short by half a block']}


class RecStream:
    """read(size) answers with everything asked for minus `short` units (at least one); text or bytes"""

    def __init__(self, data, short=0, deviate_at=None):
        self.data = data
        self.pos = 0
        self.short = short
        self.deviate_at = deviate_at      # (call index, units)
        self.calls = 0
        self.maxreq = 0

    def read(self, size=-1):
        i = self.calls
        self.calls += 1
        if size is None or size < 0:
            size = len(self.data) - self.pos
        self.maxreq = max(self.maxreq, size)
        want = max(1, size - self.short)
        if self.deviate_at is not None and self.deviate_at[0] == i:
            want = max(1, min(size, self.deviate_at[1]))
        piece = self.data[self.pos:self.pos + want]
        self.pos += len(piece)
        return piece


def measure_block(Loader):
    s = RecStream('a: 1\n' * 20000)
    for _ in yaml.parse(s, Loader=Loader):
        pass
    return s.maxreq


LONG_TOKENS = ('arun', 'dq', 'sq', 'cmt')


def make_doc(n, wide=False):
    """one explicit document of about n units.  wide=False: a block sequence of short ASCII items; True: items with a
    2-byte character; 'run': one plain scalar that is a run of 2-byte characters starting at an odd byte offset (every
    document has an even byte length, so every even read boundary falls inside a character); 'end': ASCII items closed by
    an explicit '...' and followed by comment / blank lines (as many units again, at least one line)"""
    if wide == 'run':
        return '--- x' + '\u00e9' * max(0, (n - 6) // 2) + '\n'
    if wide == 'dirs':            # a directive prologue of about n units in front of a small closed document
        return ''.join('%%TAG !h%d! tag:e.com,%d:\n' % (i, i) for i in range(max(1, (n - 8) // 24))) + '--- "v"\n'
    if wide == 'fseq':            # a flow sequence: closed, so that a directive may follow without '...'
        return '--- [' + 'item, ' * max(0, (n - 10) // 6) + 'item]\n'
    if wide in LONG_TOKENS:       # the whole document is one token of about n units (plain, quoted, or a comment after a value)
        return {'arun': '--- x%s\n', 'dq': '--- "%s"\n', 'sq': "--- '%s'\n", 'cmt': '--- v # %s\n'}[wide] % ('y' * max(1, n - 9))
    if n == 0:
        return '---\n' if wide != 'end' else '---\n...\n# c\n\n'
    item = '- it\u00e9m\n' if wide is True else '- item\n'
    body = item * max(1, (n - 4) // len(item))
    if wide == 'end':
        return '---\n' + body + '...\n' + '# comment line\n\n' * max(1, n // 16)
    return '---\n' + body


def doc_end(d, wide):
    """units of the document proper (for 'end' documents: up to and including the '...' line)"""
    if wide == 'end':
        return d.index('...\n') + 4
    return len(d)


def make_stream(sizes, tail_blocks, block, wide=False):
    docs = [make_doc(s, wide) for s in sizes]
    tail = []
    if tail_blocks:
        d = make_doc(block // 2, wide)
        tail = [d] * (2 * tail_blocks)
    text = ''.join(docs + tail)
    ends = []
    pos = 0
    for d in docs:
        ends.append(pos + doc_end(d, wide))
        pos += len(d)
    return text, ends, len(docs) + len(tail)


def consumption(api, data, Loader, short=0, deviate_at=None, limit_docs=None):
    """[(kind, end index or None, units handed out at yield)] for every yielded item, up to limit_docs documents"""
    st = RecStream(data, short, deviate_at)
    out = []
    ndoc = 0
    err = None
    try:
        for x in FN[api](st, Loader=Loader):
            em = getattr(x, 'end_mark', None)
            out.append((type(x).__name__, em.index if em is not None else None, st.pos))
            n = type(x).__name__
            if api in ('compose_all', 'load_all') or n == 'DocumentEndEvent' or n == 'DocumentStartToken':
                ndoc += 1
                if limit_docs is not None and ndoc > limit_docs:
                    break
    except yaml.YAMLError as e:
        err = type(e).__name__
    return out, st, err


def check_io_streams(T, api, be, Loader, block):
    """the stream types applications actually pass: io.StringIO / io.BytesIO (consumption read off tell())"""
    import io
    for sizes in ((10, 10), (0, block + 1, 10), (10, (5 * block) // 2)):
        for tail in (10, 30):
            text, ends, _ = make_stream(sizes, tail, block)
            for binary in (False, True):
                T.evaluations += 1
                case = {'sizes': list(sizes), 'api': api, 'backend': be, 'tail_blocks': tail, 'binary': binary, 'stream': 'io'}
                st = io.BytesIO(text.encode('utf-8')) if binary else io.StringIO(text)
                ndoc = 0
                try:
                    for x in FN[api](st, Loader=Loader):
                        n = type(x).__name__
                        em = getattr(x, 'end_mark', None)
                        endidx = em.index if em is not None else (ends[ndoc] if ndoc < len(ends) else None)
                        if api in ('compose_all', 'load_all') or n == 'DocumentEndEvent' or n == 'DocumentStartToken':
                            ndoc += 1
                        if endidx is None or ndoc > len(sizes):
                            break
                        used = st.tell()
                        limit = endidx + 2 * block + SLACK
                        if used > limit:
                            T.violation('consumption', 'reads-too-far-ahead', case, detail='%s/%s on io.%s: %s ending at %d was yielded after tell()=%d (limit %d; stream has %d units)'
                                        % (be, api, 'BytesIO' if binary else 'StringIO', n, endidx, used, limit, len(text)))
                            break
                except yaml.YAMLError as e:
                    T.violation('consumption', 'valid-stream-rejected', case, detail='%s/%s raised %s' % (be, api, type(e).__name__))
            # a reader-level error far beyond the good documents
            bad = text + '--- a\x07b\n'
            T.evaluations += 1
            case = {'sizes': list(sizes), 'api': api, 'backend': be, 'tail_blocks': tail, 'stream': 'io', 'bad': 'reader'}
            ndoc = 0
            err = None
            try:
                for x in FN[api](io.StringIO(bad), Loader=Loader):
                    n = type(x).__name__
                    if api in ('compose_all', 'load_all') or n == 'DocumentEndEvent' or n == 'DocumentStartToken':
                        ndoc += 1
            except yaml.YAMLError as e:
                err = type(e).__name__
            if err != 'ReaderError' or ndoc < len(sizes):
                T.violation('errors', 'documents-before-reader-error', case, detail='%s/%s on io.StringIO: non-printable character %d blocks beyond %d good documents; %d delivered before %s' % (be, api, tail, len(sizes), ndoc, err))
    T.nontrivial += 1


def units_upto(text, char_index, binary):
    return len(text[:char_index].encode('utf-8')) if binary else char_index


def check_stream(T, sizes, wide, api, be, Loader, block, tails, schedules):
    ref = None
    for tail in tails:
        text, ends, ndocs = make_stream(sizes, tail, block, wide)
        for binary in (False, True):
            data = text.encode('utf-8') if binary else text
            for sname, short in schedules:
                T.evaluations += 1
                case = {'sizes': list(sizes), 'wide': wide, 'api': api, 'backend': be, 'tail_blocks': tail, 'binary': binary, 'schedule': sname}
                if T.trace: T.begin(case)
                obs, st, err = consumption(api, data, Loader, short=short, limit_docs=len(sizes))
                if err:
                    T.violation('consumption', 'valid-stream-rejected', case, detail='%s/%s raised %s on a valid stream' % (be, api, err))
                    continue
                # (1) bounded look-ahead at every yield
                di = 0
                for kind, endidx, used in obs:
                    if endidx is None:
                        # load_all object: document di of the head
                        if di >= len(ends):
                            break
                        endidx = ends[di]
                        di += 1
                    limit = units_upto(text, endidx, binary) + 2 * block + SLACK
                    if used > limit and used < len(data):
                        T.violation('consumption', 'reads-too-far-ahead', case,
                                    detail='%s/%s: %s ending at unit %d was yielded after %d units had been handed out (limit %d = end + 2 x %d + %d; stream has %d units)'
                                           % (be, api, kind, units_upto(text, endidx, binary), used, limit, block, SLACK, len(data)))
                        break
                    if used > limit and used == len(data) and len(data) > limit + block:
                        T.violation('consumption', 'whole-stream-read-before-delivery', case,
                                    detail='%s/%s: %s ending at unit %d was yielded only after the whole stream (%d units) had been read' % (be, api, kind, units_upto(text, endidx, binary), used))
                        break
                # (2) same consumption whatever follows (tails long enough not to end inside the look-ahead)
                if tail >= 3:
                    key = (binary, sname)
                    sig = [u for _, _, u in obs]
                    if ref is None:
                        ref = {}
                    if key in ref and ref[key][0] != sig:
                        T.violation('consumption', 'depends-on-what-follows', case, detail='%s/%s: units handed out at each yield differ between tail=%d blocks and tail=%d blocks: %r vs %r'
                                    % (be, api, ref[key][1], tail, ref[key][0][:12], sig[:12]))
                    ref.setdefault(key, (sig, tail))
                T.outcome((api, be, len(obs)))
    T.nontrivial += 1


BADS = [('scanner', '--- "a\\qb"\n'), ('scanner2', '--- a: b: c\n'), ('parser', '--- [a, b\n'), ('parser2', '--- {a: b]\n'), ('composer', '--- [*undefined]\n'),
        ('composer2', '--- [&a 1, &a 2]\n'), ('constructor', '--- !nope x\n'), ('constructor2', '--- {[a]: b}\n'),
        ('raw-scanner', '@ not yaml\n'), ('raw-scanner2', '`x\n'),
        # malformed directives (rejected by the parser): after documents that are closed (quoted scalar, flow collection) they
        # may follow without an explicit document end
        ('directive', '%YAML 2.0\n--- x\n'), ('directive2', '%YAML 1.1\n%YAML 1.1\n--- x\n'), ('directive3', '%TAG !a! x\n%TAG !a! y\n--- x\n'),
        ('directive4', '%YAML 1.1\n%YAML 1.x\n--- x\n'), ('directive5', '%TAG !a! x\n%TAG !b y\n--- x\n')]


def check_bad(T, nsizes, bad, api, be, Loader, block, ender=False):
    bname, btext = bad
    if bname.startswith('constructor') and api != 'load_all':
        return
    if bname.startswith('composer') and api not in ('load_all', 'compose_all'):
        return
    shapes = ('dq', 'fseq') if bname.startswith('directive') else (False,)
    for sizes, ender, shape in itertools.product(itertools.product((0, 10, block + 1), repeat=nsizes), (False, True), shapes):
        if bname.startswith('raw') and not (ender and sizes):
            continue
        # ender: every good document is closed by an explicit '...' and the malformed text follows it directly
        text = ''.join(make_doc(sz, shape) + ('...\n' if ender else '') for sz in sizes)
        full = text + btext + '--- after\n'
        for binary in (False, True):
            data = full.encode('utf-8') if binary else full
            for short in (0, 7):
                T.evaluations += 1
                case = {'sizes': list(sizes), 'bad': bname, 'api': api, 'backend': be, 'binary': binary, 'short': short, 'explicit_end': ender, 'shape': shape}
                if T.trace: T.begin(case)
                st = RecStream(data, short)
                ndoc = 0
                err = None
                try:
                    for x in FN[api](st, Loader=Loader):
                        n = type(x).__name__
                        if api in ('compose_all', 'load_all') or n == 'DocumentEndEvent':
                            ndoc += 1
                        elif api == 'scan' and n == 'DocumentStartToken':
                            ndoc += 1
                except yaml.YAMLError as e:
                    err = type(e).__name__
                want = len(sizes)
                if api == 'scan':
                    # the tokens of j good documents = j+1 document-start tokens seen (the bad document's own '---' included)
                    ok = (err is not None and ndoc >= want + 1) if bname.startswith('scanner') else ((err is not None and ndoc >= want) if bname.startswith('raw') else True)
                    got = ndoc - 1
                else:
                    ok = err is not None and ndoc == want
                    got = ndoc
                if not ok:
                    T.violation('errors', 'documents-before-error', case, detail='%s/%s: %d good documents precede the malformed one (%s) but %d were delivered before %s'
                                % (be, api, want, bname, got, err or 'the end of the stream (no error)'))
    T.nontrivial += 1


def check_reader_bad(T, api, be, Loader, block):
    for sizes in ((10,), (10, block + 1), (0, 10, 10)):
        text, ends, _ = make_stream(sizes, 0, block)
        for dist in (3 * block, 6 * block):
            filler = make_doc(dist)
            full = text + filler + '--- a\x07b\n'
            for binary in (False, True):
                T.evaluations += 1
                data = full.encode('utf-8') if binary else full
                case = {'sizes': list(sizes), 'bad': 'reader@+%d' % dist, 'api': api, 'backend': be, 'binary': binary}
                st = RecStream(data, 0)
                ndoc = 0
                err = None
                try:
                    for x in FN[api](st, Loader=Loader):
                        n = type(x).__name__
                        if api in ('compose_all', 'load_all') or n == 'DocumentEndEvent' or (api == 'scan' and n == 'DocumentStartToken'):
                            ndoc += 1
                except yaml.YAMLError as e:
                    err = type(e).__name__
                want = len(sizes) + (1 if api == 'scan' else 0)
                if err != 'ReaderError' or ndoc < want:
                    T.violation('errors', 'documents-before-reader-error', case, detail='%s/%s: a non-printable character lies %d units beyond %d good documents; %d were delivered before %s'
                                % (be, api, dist, len(sizes), ndoc, err))
    T.nontrivial += 1


def check_abandon(T, api, be, Loader, block):
    text, ends, _ = make_stream((10, 10, block + 1), 10, block)
    for mode in ('close-after-1', 'drop-after-1', 'close-unstarted', 'drop-unstarted', 'close-after-error-free-3'):
        for binary in (False, True):
            T.evaluations += 1
            case = {'api': api, 'backend': be, 'mode': mode, 'binary': binary}
            disposed = []
            refs = []

            class L(Loader):
                def __init__(self, stream):
                    Loader.__init__(self, stream)
                    refs.append(weakref.ref(self))

                def dispose(self):
                    disposed.append(1)
                    Loader.dispose(self)
            st = RecStream(text.encode('utf-8') if binary else text)
            gc_was = gc.isenabled()
            gc.disable()           # "releases the loader": by reference counting, not whenever the cycle collector happens to run
            g = FN[api](st, Loader=L)
            n = {'close-after-1': 1, 'drop-after-1': 1, 'close-unstarted': 0, 'drop-unstarted': 0, 'close-after-error-free-3': 3}[mode]
            for _ in range(n):
                next(g)
            calls = st.calls
            if mode.startswith('close'):
                g.close()
            del g
            alive_now = any(r() is not None for r in refs)
            if gc_was:
                gc.enable()
            gc.collect()
            started = n > 0
            if api in ('scan', 'parse', 'compose_all', 'load_all') and started:
                if len(disposed) != 1:
                    T.violation('abandon', 'dispose-count', case, detail='%s/%s %s: dispose() called %d times' % (be, api, mode, len(disposed)))
            if not started and len(disposed) != len(refs):
                # an unstarted generator may not have built its loader at all; if it did, it owes it a dispose()
                T.violation('abandon', 'dispose-count', case, detail='%s/%s %s: %d loader(s) were created but dispose() was called %d times' % (be, api, mode, len(refs), len(disposed)))
            if not started and calls:
                T.count('reads-before-first-item')
            if st.calls != calls:
                T.violation('abandon', 'read-after-abandon', case, detail='%s/%s %s: %d further read() calls after the iteration was abandoned' % (be, api, mode, st.calls - calls))
            if any(r() is not None for r in refs):
                T.violation('abandon', 'loader-still-reachable', case, detail='%s/%s %s: the loader object is still alive after the generator was abandoned and collected' % (be, api, mode))
            elif alive_now:
                T.violation('abandon', 'loader-kept-alive-by-a-cycle', case, detail='%s/%s %s: after the generator was abandoned the loader is only freed by the cycle collector (dispose() left a reference cycle)' % (be, api, mode))
            del L
    T.nontrivial += 1


_BLOCK = {}


def block_of(be, Loader):
    if be not in _BLOCK:
        _BLOCK[be] = measure_block(Loader)
    return _BLOCK[be]


LATER4 = (0, 1, 4, 5)     # indices into size_values used for documents 2..4 of thorough 4-document streams


def size_values(block):
    return [0, 10, block // 2, block - 1, block + 1, (5 * block) // 2, 3 * block + 5]


def plan(tier, seed):
    q = tier == 'quick'
    jobs = []
    for be, _ in BACKENDS:
        for api in APIS:
            jobs.append(('abandon', be, api))
            jobs.append(('readerbad', be, api))
            jobs.append(('iostreams', be, api))
            jobs.append(('longtok', be, api))
            for b in range(len(BADS)):
                jobs.append(('bad', be, api, b, 2))
            nsv = 7
            K = 3 if q else 4
            for k in range(1, K + 1):
                for first in range(nsv):
                    if q or k <= 2:
                        jobs.append(('cons', be, api, k, first, q))
                    else:
                        # thorough, 3 and 4 documents: one job per (first, second) size
                        for second in range(nsv if k == 3 else len(LATER4)):
                            jobs.append(('cons', be, api, k, first, q, second))
    return jobs


def run_job(job, T):
    kind, be, api = job[:3]
    Loader = dict(BACKENDS)[be]
    block = block_of(be, Loader)
    T.count('block_%s' % be, 0)
    T.extra = {'block_' + be: block}
    if kind == 'abandon':
        check_abandon(T, api, be, Loader, block)
        T.sample('abandon', {'api': api, 'backend': be})
    elif kind == 'iostreams':
        check_io_streams(T, api, be, Loader, block)
        T.sample('consumption', {'api': api, 'backend': be, 'stream': 'io.StringIO / io.BytesIO'})
    elif kind == 'longtok':
        # one token much longer than a refill block: the look-ahead bound is relative to the end of the document, so it
        # must not grow with the length of the token that is being scanned
        scheds = [('default', 0), ('short-by-7', 7)]
        for w in LONG_TOKENS + ('run', 'dirs'):
            if w == 'cmt' and api != 'load_all':
                continue      # marks of tokens / events / nodes end before a trailing comment; only load_all measures from the end of the document text
            for n in (block + 1, 3 * block + 5, 5 * block + 3, 9 * block + 1):
                check_stream(T, (n,), w, api, be, Loader, block, (0, 10), scheds)
                check_stream(T, (10, n), w, api, be, Loader, block, (10,), scheds[:1])
        T.sample('consumption', {'api': api, 'backend': be, 'long_token_units': 9 * block + 1})
    elif kind == 'readerbad':
        check_reader_bad(T, api, be, Loader, block)
        T.sample('errors', {'api': api, 'backend': be, 'bad': 'reader'})
    elif kind == 'bad':
        for ns in (0, 1, job[4]):
            check_bad(T, ns, BADS[job[3]], api, be, Loader, block)
        T.sample('errors', {'api': api, 'backend': be, 'bad': BADS[job[3]][0]})
    elif kind == 'cons':
        _, _, _, k, first, q = job[:6]
        second = job[6] if len(job) > 6 else None
        sv = size_values(block)
        # the 100-block tail (about 400k units) only behind one or two documents
        tails = (0, 10) if (q or k >= 3) else (0, 10, 100)
        # quick: 3-document streams use a reduced size set for the later documents; thorough: 4-document streams
        later = sv if (k <= 2 or (not q and k == 3)) else ([0, 10, block + 1] if q else [sv[i] for i in LATER4])
        scheds = [('default', 0), ('short-by-1', 1), ('short-by-7', 7), ('short-by-half-block', block // 2)]
        if k >= 2 and q:
            scheds = scheds[:2]
        sizes = None
        for rest in itertools.product(range(len(later)), repeat=k - 1):
            if second is not None and rest[0] != second:
                continue
            sizes = (sv[first],) + tuple(later[i] for i in rest)
            if sum(sizes) > 8 * block and k >= 3:
                continue
            check_stream(T, sizes, False, api, be, Loader, block, tails, scheds)
            if k == 1 or (k == 2 and rest[0] in (1, 3)):
                check_stream(T, sizes, True, api, be, Loader, block, tails[:2], scheds[:2])
                check_stream(T, sizes, 'run', api, be, Loader, block, tails[:2], scheds[:1] + scheds[3:4])
                check_stream(T, sizes, 'end', api, be, Loader, block, tails[:2], scheds[:2])
        T.sample('consumption', {'api': api, 'backend': be, 'sizes': list(sizes) if sizes else None})
    else:
        raise ValueError(job)


def finalize(agg, tier, seed):
    ex = {}
    for _, e in agg.extras:
        ex.update(e)
    return {'measured_blocks': ex}


def replay(sub, case, T):
    be = case['backend']
    Loader = dict(BACKENDS)[be]
    block = block_of(be, Loader)
    api = case['api']
    if case.get('stream') == 'io':
        check_io_streams(T, api, be, Loader, block)
    elif sub == 'abandon':
        check_abandon(T, api, be, Loader, block)
    elif sub == 'errors':
        if str(case.get('bad', '')).startswith('reader'):
            check_reader_bad(T, api, be, Loader, block)
        else:
            check_bad(T, len(case['sizes']), dict(BADS).get(case['bad']) and (case['bad'], dict(BADS)[case['bad']]), api, be, Loader, block)
    else:
        scheds = {'default': 0, 'short-by-1': 1, 'short-by-7': 7, 'short-by-half-block': block // 2}
        check_stream(T, tuple(case['sizes']), case.get('wide', False), api, be, Loader, block, (0, 10, case.get('tail_blocks', 10)) if case.get('tail_blocks', 10) not in (0, 10) else (0, 10),
                     [(case['schedule'], scheds[case['schedule']])])


def snippet(sub, case):
    return '# ./check C18 --replay <this file>   case=%r' % (case,)


def selftest():
    s = RecStream('abcdefgh', short=1)
    assert s.read(4) == 'abc' and s.read(4) == 'def' and s.pos == 6 and s.maxreq == 4
    t, ends, n = make_stream((0, 10), 0, 4096)
    assert t.count('---') == 2 and ends[0] == 4 and t == '---\n---\n- item\n'
