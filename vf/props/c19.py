"""C19 - failures of the caller's stream or callbacks pass through cleanly (E4: every invocation index x exception type)."""
import io
import yaml
from .. import events as E
from ..oracles import graph
from . import c11

ID = 'C19'
LEVEL = 'fault_enumeration'
RULE = ('a corpus of load cases (documents with anchors, merges, multi-document, block scalars, custom tags; delivered through '
        'text and binary streams that hand out 1, 7 or 4096 units per read; loaders with user constructors and '
        'multi-constructors on scalar, sequence and mapping nodes incl. two-phase generator constructors, in value, key, '
        'sequence-item and root position; APIs load, load_all, scan, parse, compose_all) and dump cases (plain, shared, '
        'recursive and custom-class values, node graphs, event lists; text and binary output streams with write and flush; '
        'dumpers with user representers and multi-representers; APIs dump, dump_all, serialize_all, emit), on both back-ends. '
        'For every case the fault-free run numbers every invocation of read / write / flush / each user callback; then for '
        'EVERY index i and EVERY exception type of {custom Exception, TypeError, ValueError, KeyError, AttributeError, '
        'RecursionError, KeyboardInterrupt} the run is repeated with invocation i raising a fresh exception object. Oracle: the '
        'exception reaching the caller is that very object; items / output delivered so far are a prefix of the fault-free '
        'ones; the very next fault-free run of the same case (same Python objects) and a fixed reference call give the baseline '
        'results; the deep snapshot of library-global state is unchanged. non-trivial = every faulted run')
ASSUMPTIONS = ['StopIteration is not injected: raised inside a generator (load_all, scan, parse, two-phase constructors) Python itself turns it into RuntimeError (PEP 479)',
               'the invocation sequence is deterministic for a given case (verified: the fault-free run is executed twice)',
               'prefix comparison of output is on the bytes / characters handed to write() before the fault']


class Boom(Exception):
    pass


EXC_TYPES = [Boom, TypeError, ValueError, KeyError, AttributeError, RecursionError, KeyboardInterrupt]


def bounds(tier, seed):
    return {'fault_sequences': 'single faults' if tier == 'quick' else 'single faults + every ordered pair (i, j) of fault points with the custom exception', 'load_cases': len(load_cases()), 'dump_cases': len(dump_cases()), 'exception_types': [t.__name__ for t in EXC_TYPES], 'fault_points': 'every invocation index of every case'}


class Env:
    def __init__(self, fail_at=None, exc_type=None, persistent=False):
        self.persistent = persistent      # every invocation from fail_at on fails, each with a fresh exception object
        self.first = None
        self.n = 0
        self.fail_at = fail_at
        self.exc_type = exc_type
        self.raised = None
        self.kinds = []

    def tick(self, kind):
        i = self.n
        self.n += 1
        self.kinds.append(kind)
        if i == self.fail_at or (self.persistent and self.fail_at is not None and i > self.fail_at):
            self.raised = self.exc_type('injected fault #%d in %s' % (i, kind))
            if self.first is None:
                self.first = self.raised
            raise self.raised


class InStream:
    def __init__(self, data, chunk, env):
        self.data, self.chunk, self.env, self.pos = data, chunk, env, 0

    def read(self, size=-1):
        self.env.tick('read')
        n = self.chunk if size is None or size < 0 else min(self.chunk, size)
        piece = self.data[self.pos:self.pos + n]
        self.pos += len(piece)
        return piece


class OutStream:
    def __init__(self, env, binary, with_flush=True):
        self.env = env
        self.parts = []
        self.binary = binary
        if not binary:
            self.encoding = None
        if with_flush:
            self.flush = self._flush

    def write(self, data):
        self.env.tick('write')
        self.parts.append(data)

    def _flush(self):
        self.env.tick('flush')

    def value(self):
        return (b'' if self.binary else '').join(self.parts)


class Obj:
    def __init__(self, v):
        self.v = v


class Obj2(Obj):
    pass


def make_loader(Base, env):
    class L(Base):
        pass

    def c_scalar(loader, node):
        env.tick('ctor-scalar')
        return ('S', loader.construct_scalar(node))

    def c_seq(loader, node):
        env.tick('ctor-seq-1')
        out = []
        yield out
        env.tick('ctor-seq-2')
        out.extend(loader.construct_sequence(node))

    def c_map(loader, node):
        env.tick('ctor-map')
        return Obj(loader.construct_mapping(node, deep=True))

    def c_multi(loader, suffix, node):
        env.tick('ctor-multi')
        return ('M', suffix, loader.construct_scalar(node))
    L.add_constructor('!s', c_scalar)
    L.add_constructor('!q', c_seq)
    L.add_constructor('!m', c_map)
    L.add_multi_constructor('!mc:', c_multi)
    # path resolvers keep per-document stacks in the loader while it walks the tree: the value under c/d (document 'plain')
    # and under k*/1 (document 'long') is resolved to !s by its path
    L.add_path_resolver('!s', ['c', 'd'], str)
    L.add_path_resolver('!s', [(dict, 'k3'), (list, 0)], str)
    return L


def make_dumper(Base, env):
    class D(Base):
        pass

    def r_obj(dumper, data):
        env.tick('repr-obj')
        return dumper.represent_mapping('!m', {'v': data.v})

    def r_multi(dumper, data):
        env.tick('repr-multi')
        return dumper.represent_scalar('!o2', str(data.v))
    D.add_representer(Obj, r_obj)
    D.add_multi_representer(Obj2, r_multi)
    D.add_path_resolver('!pv', ['c', 'd'], str)         # the serializer walks with the same per-document stacks
    D.add_path_resolver('!pk', ['k', 0])
    return D


LOAD_DOCS = [
    ('plain', 'a: 1\nb: [x, y]\nc: {d: e}\n'),
    ('custom', '- !s one\n- !q [1, !s two, 3]\n- !m {k: !s v, j: [1]}\n- !mc:suf x\n- &a !q [z]\n- *a\n'),
    ('custom-keys', '? !s key\n: !s value\n? !mc:k kk\n: [!s a]\n'),
    ('custom-root', '!m {a: !q [1, 2], b: !mc:x y}\n'),
    ('multidoc', '--- !s a\n--- [!s b, c]\n--- &x !q [1]\n'),
    ('merge-anchors', '- &m {a: 1, b: !s two}\n- {<<: *m, c: 3}\n- |\n  block\n  text\n'),
    ('long', ''.join('k%d: [v%d, !s w%d]\n' % (i, i, i) for i in range(25))),
]


def load_cases():
    cases = []
    for be, Base in (('py', yaml.SafeLoader), ('c', yaml.CSafeLoader)):
        for dn, doc in LOAD_DOCS:
            for api in ('load_all', 'compose_all', 'parse', 'scan', 'load', 'compose'):
                if api in ('load', 'compose') and dn == 'multidoc':
                    continue
                if api in ('parse', 'scan', 'compose_all') and dn not in ('custom', 'multidoc', 'long'):
                    continue
                if api == 'compose' and dn not in ('plain', 'custom', 'long'):
                    continue
                for binary, chunk in ((False, 7), (True, 1), (False, 4096)):
                    if chunk == 1 and dn == 'long':
                        continue
                    cases.append(('L', be, dn, api, binary, chunk))
    return cases


def values():
    s = [1, 2]
    r = {'k': [1]}
    r['k'].append(r)
    o = Obj('x')
    return {
        'plain': {'a': 1, 'b': ['x', 'y'], 'c': {'d': 'e'}, 'long': 'word ' * 40},
        'shared': {'a': s, 'b': [s, s]},
        'recursive': r,
        'objects': [Obj(1), Obj2(2), {'k': Obj([Obj2('in')])}],
        'object-shared': [o, o, {'k': o}],
        'docs': None,
    }


def dump_cases():
    cases = []
    for be in ('py', 'c'):
        for vn in ('plain', 'shared', 'recursive', 'objects', 'object-shared'):
            for binary in (False, True):
                cases.append(('D', be, 'dump', vn, binary))
        cases.append(('D', be, 'dump_all', 'objects', False))
        cases.append(('D', be, 'dump_all', 'shared', True))
        cases.append(('D', be, 'serialize_all', 'nodes', False))
        cases.append(('D', be, 'emit', 'events', False))
        cases.append(('D', be, 'emit', 'events', True))
    return cases


class Runner:
    """one case; keeps its Python objects alive across the fault-free run, the faulted runs and the next-call runs"""

    def __init__(self, case):
        self.case = case
        self.vals = values()

    def run(self, env):
        """returns (items or text delivered, exception or None)"""
        c = self.case
        if c[0] == 'L':
            _, be, dn, api, binary, chunk = c
            Base = yaml.SafeLoader if be == 'py' else yaml.CSafeLoader
            L = make_loader(Base, env)
            doc = dict(LOAD_DOCS)[dn]
            st = InStream(doc.encode('utf-8') if binary else doc, chunk, env)
            items = []
            try:
                if api == 'load':
                    items.append(_canon(yaml.load(st, Loader=L)))
                elif api == 'compose':
                    items.append(repr(c11.node_canon([yaml.compose(st, Loader=L)])))
                else:
                    fn = {'load_all': yaml.load_all, 'compose_all': yaml.compose_all, 'parse': yaml.parse, 'scan': yaml.scan}[api]
                    for x in fn(st, Loader=L):
                        items.append(_canon(x) if api == 'load_all' else (repr(c11.node_canon([x])) if api == 'compose_all' else (repr(E.describe(x)) if api == 'parse' else type(x).__name__)))
            except BaseException as e:
                return items, e
            return items, None
        _, be, api, vn, binary = c
        Base = {('py', True): yaml.SafeDumper, ('c', True): yaml.CSafeDumper}[(be, True)]
        D = make_dumper(Base, env)
        out = OutStream(env, binary)
        kw = {'encoding': 'utf-8'} if binary else {}
        try:
            if api == 'dump':
                yaml.dump(self.vals[vn], out, Dumper=D, **kw)
            elif api == 'dump_all':
                yaml.dump_all([self.vals[vn], self.vals['plain'], self.vals[vn]], out, Dumper=D, **kw)
            elif api == 'serialize_all':
                n1 = yaml.compose('&a [1, {k: *a}, x]')
                n2 = yaml.compose('a: |\n  text\n')
                yaml.serialize_all([n1, n2, n1], out, Dumper=D, **kw)
            else:
                evs = E.stream(E.doc(E.seq([[E.S('x', anchor='a')], [('ALIAS', 'a')], E.mapping([([E.S('k')], [E.S('a\nb\n', style='|')])])])), E.doc([E.S('second')], explicit=True))
                built = E.build_all(evs)
                if binary:
                    built[0] = yaml.StreamStartEvent(encoding='utf-8')
                yaml.emit(built, out, Dumper=D)
        except BaseException as e:
            return out.value(), e
        return out.value(), None


def _canon(x):
    return repr(graph.canon(x, obj_hook=lambda o, walk, n: ('obj', type(o).__name__, n, walk(o.v)) if isinstance(o, Obj) else None))


REFERENCE = None


def reference_call():
    return (yaml.safe_dump({'a': [1, {'b': None}], 'c': 'x\ny\n'}), repr(yaml.safe_load('a: &x [1, 2]\nb: *x\n')), yaml.dump([Obj(1)] and [1], Dumper=yaml.CSafeDumper),
            repr(yaml.load('[1, a]', Loader=yaml.CSafeLoader)))


def is_prefix(a, b):
    return len(a) <= len(b) and b[:len(a)] == a


def check_case(T, case, pairs=False):
    global REFERENCE
    if REFERENCE is None:
        REFERENCE = reference_call()
    r = Runner(case)
    e0 = Env()
    base, exc = r.run(e0)
    if exc is not None:
        # nothing was injected: the tree under test fails a plain call (possibly poisoned by an earlier case in this worker)
        T.violation('faults', 'fault-free-run-fails', {'case': list(case), 'fail_at': None, 'kind': None, 'exception': None}, detail='without any injected fault the case raised %r' % (exc,))
        return
    e0b = Env()
    base2, _ = r.run(e0b)
    if base2 != base or e0b.kinds != e0.kinds:
        raise RuntimeError('harness nondeterminism: fault-free run of %r is not repeatable' % (case,))
    snap0 = c11.snap_digest(c11.global_snapshot(subclasses=False))
    N = e0.n
    T.count('invocations', N)
    for i in range(N):
        for et in EXC_TYPES:
            T.evaluations += 1
            T.nontrivial += 1
            cs = {'case': list(case), 'fail_at': i, 'kind': e0.kinds[i], 'exception': et.__name__}
            if T.trace: T.begin(cs)
            env = Env(i, et)
            got, exc = r.run(env)
            if exc is None:
                T.violation('faults', 'fault-swallowed', cs, detail='%s raised in invocation %d (%s) never reached the caller; the call returned %.100r' % (et.__name__, i, e0.kinds[i], got))
            elif exc is not env.raised:
                T.violation('faults', 'exception-replaced', cs, detail='%s raised in invocation %d (%s) reached the caller as %s(%s)' % (et.__name__, i, e0.kinds[i], type(exc).__name__, str(exc)[:120]))
            if not is_prefix(got, base):
                T.violation('faults', 'delivered-not-a-prefix', cs, detail='delivered before the fault: %.200r; fault-free run delivers %.200r' % (got, base))
            # the very next calls
            nxt, exc2 = r.run(Env())
            if exc2 is not None or nxt != base:
                T.violation('faults', 'next-call-affected', cs, detail='after the failed call the same case fault-free gives %.200r (exception %r); baseline %.200r' % (nxt, exc2, base))
            try:
                ref_now = reference_call()
            except BaseException as e2:
                ref_now = ('raised', type(e2).__name__, str(e2)[:120])
            if ref_now != REFERENCE:
                T.violation('faults', 'reference-call-affected', cs, detail='a fixed reference call gives %.200r after the failed call; baseline %.200r' % (ref_now, REFERENCE))
            if c11.snap_digest(c11.global_snapshot(subclasses=False)) != snap0:
                T.violation('faults', 'global-state-changed', cs, detail='library-global state differs after the failed call')
                snap0 = c11.snap_digest(c11.global_snapshot(subclasses=False))
            T.outcome((e0.kinds[i], type(exc).__name__ if exc else None))
    # a device that keeps failing: from invocation i on every read / write / flush / callback raises (a fresh object each
    # time); the caller must get the FIRST exception, whatever the library touches while that one propagates
    for i in range(N):
        T.evaluations += 1
        T.nontrivial += 1
        cs = {'case': list(case), 'fail_at': i, 'kind': e0.kinds[i], 'exception': 'Boom', 'persistent': True}
        env = Env(i, Boom, persistent=True)
        got, exc = r.run(env)
        if exc is None or exc is not env.first:
            T.violation('faults', 'first-exception-replaced', cs, detail='everything fails from invocation %d (%s) on; the first exception was %r, the caller got %r' % (i, e0.kinds[i], env.first, exc))
        if not is_prefix(got, base):
            T.violation('faults', 'delivered-not-a-prefix', cs, detail='delivered before the fault: %.200r; fault-free run delivers %.200r' % (got, base))
        nxt, exc2 = r.run(Env())
        if exc2 is not None or nxt != base:
            T.violation('faults', 'next-call-affected', cs, detail='after the failed call the same case fault-free gives %.200r (exception %r)' % (nxt, exc2))
    if pairs:
        # fault sequences of length two (thorough): the call fails at i, the retry fails at j, then the third call must succeed
        for i in range(N):
            for j in range(N):
                T.evaluations += 1
                T.nontrivial += 1
                cs = {'case': list(case), 'fail_at': [i, j], 'kind': [e0.kinds[i], e0.kinds[j]], 'exception': 'Boom'}
                e1 = Env(i, Boom)
                _, x1 = r.run(e1)
                e2 = Env(j, Boom)
                got2, x2 = r.run(e2)
                if x2 is None or x2 is not e2.raised:
                    T.violation('fault-sequences', 'second-fault-not-passed-through', cs, detail='after a first failed call (invocation %d) the retry failing at invocation %d gave %r' % (i, j, x2))
                elif not is_prefix(got2, base):
                    T.violation('fault-sequences', 'delivered-not-a-prefix', cs, detail='retry delivered %.200r; fault-free run delivers %.200r' % (got2, base))
                nxt, exc3 = r.run(Env())
                if exc3 is not None or nxt != base:
                    T.violation('fault-sequences', 'next-call-affected', cs, detail='after two failed calls the same case fault-free gives %.200r (exception %r); baseline %.200r' % (nxt, exc3, base))
    T.sample('faults', {'case': list(case), 'invocations': N, 'kinds': sorted(set(e0.kinds))})


def plan(tier, seed):
    return [('case', c, tier != 'quick') for c in load_cases() + dump_cases()]


def run_job(job, T):
    check_case(T, job[1], pairs=job[2])


def replay(sub, case, T):
    check_case(T, tuple(case['case']), pairs=isinstance(case.get('fail_at'), list))


def snippet(sub, case):
    return '# ./check C19 --replay <this file>   case=%r' % (case,)


def selftest():
    e = Env(1, Boom)
    e.tick('a')
    try:
        e.tick('b')
        raise AssertionError
    except Boom as x:
        assert x is e.raised
    assert is_prefix('ab', 'abc') and not is_prefix('b', 'abc') and is_prefix([], [1])
