"""C17 - Python objects survive dump / unsafe load as they survive pickle (E1 over reduction shapes and graphs)."""
import collections, datetime, decimal, enum, fractions, itertools, pickle, types
import yaml
from ..oracles import graph

ID = 'C17'
LEVEL = 'exploration'
RULE = ('a family of ~45 reduction shapes (instance dict, __slots__, slots+dict, __getstate__/__setstate__ with dict / tuple / '
        'falsy state, __getnewargs__, __reduce__ with args / state / listitems / dictitems / all five / a module-level '
        'function, subclasses of list dict set tuple int str, Enum, IntFlag, namedtuple, tuple, complex incl. signed zero / '
        'inf / nan parts, classes functions builtins modules by name, OrderedDict defaultdict deque Counter frozenset '
        'bytearray range Fraction Decimal timedelta time timezone): every shape alone, every ordered pair holder(inner) with '
        'the inner object in every slot of the holder, every pair under safe containers, sharing patterns (same inner twice, '
        'under two parents, holder and inner side by side) and cycles through list / dict / instance __dict__; x Dumper and '
        'CDumper x option sets x UnsafeLoader / CUnsafeLoader / Loader. Oracle: the loaded graph is bisimilar (types, values, '
        'sharing partition, cycles) to pickle.loads(pickle.dumps(x, 2)); cycles through constructor arguments / __setstate__ '
        'state / listitems must be rebuilt equal to the original or rejected with ConstructorError; FullLoader accepts a '
        'document iff it has no python/object* or python/module tag and then agrees with the unsafe result. non-trivial = '
        'every graph (all contain at least one non-safe-type object)')
ASSUMPTIONS = ['pickle protocol 2 is the reference, as the statement says; dict ordering is compared only where sort_keys=False is passed',
               'classes live in the importable module vf_shapes (vf/support); nested / local classes are outside the family (PyYAML names classes by __name__)']

DUMPERS = (('py', yaml.Dumper), ('c', yaml.CDumper))
UNSAFE = (('Unsafe/py', yaml.UnsafeLoader), ('Unsafe/c', yaml.CUnsafeLoader), ('Loader/py', yaml.Loader))
FULLS = (('Full/py', yaml.FullLoader), ('Full/c', yaml.CFullLoader))
OPTS = [{}, {'default_flow_style': True}, {'canonical': True}, {'default_style': '"'}, {'width': 10, 'indent': 4}, {'sort_keys': False}, {'allow_unicode': True}]


def bounds(tier, seed):
    q = tier == 'quick'
    return {'shapes': len(shapes()), 'holders': len([s for s in shapes() if s[2]]), 'pairs': 'all ordered holder x shape pairs',
            'option_sets': len(OPTS) if not q else 'all for shapes alone / sharing / cycles; {} and one seed-rotated set for pairs'}


def S():
    import vf_shapes
    return vf_shapes


# ---------------------------------------------------------------- canonical walk for arbitrary objects
def hook(o, walk, n):
    t = type(o)
    name = t.__module__ + '.' + t.__qualname__
    if isinstance(o, (type, types.FunctionType, types.BuiltinFunctionType, types.ModuleType)):
        return ('global', getattr(o, '__module__', None), getattr(o, '__qualname__', getattr(o, '__name__', None)))
    if isinstance(o, enum.Enum):
        return ('enum', name, o.value if not isinstance(o.value, (list, dict)) else repr(o.value))
    if isinstance(o, fractions.Fraction):
        return ('fraction', o.numerator, o.denominator)
    if isinstance(o, decimal.Decimal):
        return ('decimal', str(o))
    if isinstance(o, (datetime.timedelta, datetime.time, datetime.timezone, range)):
        return ('repr', name, repr(o))
    if isinstance(o, bytearray):
        return ('bytearray', bytes(o))
    parts = []
    if isinstance(o, collections.deque):
        parts.append(('deque', o.maxlen, tuple(walk(i) for i in o)))
    elif isinstance(o, (list, tuple)):
        parts.append(('items', tuple(walk(i) for i in o)))
    elif isinstance(o, dict):
        if isinstance(o, collections.defaultdict):
            parts.append(('default_factory', walk(o.default_factory)))
        pairs = list(o.items())
        if not isinstance(o, collections.OrderedDict):
            pairs.sort(key=lambda kv: repr(graph._keyform(kv[0])))
        parts.append(('dict', tuple((walk(k), walk(v)) for k, v in pairs)))
    elif isinstance(o, (set, frozenset)):
        parts.append(('set', tuple(sorted((walk(i) for i in o), key=repr))))
    elif isinstance(o, (int, float, str, bytes)):
        parts.append(('value', graph._atom(getattr(t.__mro__[-2], '__call__')(o)) if False else _base(o)))
    d = getattr(o, '__dict__', None)
    if isinstance(d, dict):
        parts.append(('attrs', tuple((k, walk(v)) for k, v in sorted(d.items(), key=lambda kv: str(kv[0])))))
    slots = []
    for c in t.__mro__:
        for s in getattr(c, '__slots__', ()) if isinstance(getattr(c, '__slots__', ()), (tuple, list)) else ():
            if s not in ('__dict__', '__weakref__') and hasattr(o, s):
                slots.append((s, walk(getattr(o, s))))
    if slots:
        parts.append(('slots', tuple(slots)))
    return ('obj', name, n, tuple(parts))


def _base(o):
    for b in (bool, int, float, str, bytes):
        if isinstance(o, b):
            return graph._atom(b(o))


def canon(x, ordered=False):
    return graph.canon(x, ordered=ordered, obj_hook=hook)


def _scalar_sub(o):
    t = type(o)
    return isinstance(o, (int, str, float, bytes)) and t not in (int, str, float, bytes, bool) and not isinstance(o, enum.Enum)


def _relaxed_hook(o, walk, n):
    if type(o).__name__ == 'StateFalsy':
        return ('obj', 'vf_shapes.StateFalsy', n, 'state-not-compared')
    return hook(o, walk, n)


def canon_relaxed(x, ordered=False):
    """canonical form that ignores exactly the two recorded known findings: identity of int/str/float/bytes subclass
    instances, and the attributes of objects whose __getstate__ returns a falsy value"""
    return graph.canon(x, ordered=ordered, obj_hook=_relaxed_hook, identity_free=_scalar_sub)


def features(x):
    """which known-finding triggers the graph x contains"""
    seen = {}
    out = set()

    def rec(o):
        if _scalar_sub(o):
            seen[id(o)] = seen.get(id(o), 0) + 1
            if seen[id(o)] > 1:
                out.add('shared-scalar-subclass')
            if seen[id(o)] > 1:
                return
        elif id(o) in seen:
            return
        else:
            seen[id(o)] = 1
        if type(o).__name__ == 'StateFalsy':
            out.add('falsy-state')
        named = o if isinstance(o, (type, types.FunctionType)) else type(o)
        if '.' in getattr(named, '__qualname__', '') and '<locals>' not in named.__qualname__:
            out.add('nested-qualname')
        if isinstance(o, (list, tuple, set, frozenset, collections.deque)):
            for i in o: rec(i)
        elif isinstance(o, dict):
            for k, v in o.items(): rec(k); rec(v)
        d = getattr(o, '__dict__', None)
        if isinstance(d, dict) and not isinstance(o, (type, types.ModuleType, types.FunctionType)):
            for v in d.values(): rec(v)
        for c in type(o).__mro__:
            sl = getattr(c, '__slots__', ())
            for a in sl if isinstance(sl, (tuple, list)) else ():
                if a not in ('__dict__', '__weakref__') and hasattr(o, a):
                    rec(getattr(o, a))
    rec(x)
    return out


def known_relaxed(case, which):
    """True iff the graph of `case` contains the trigger `which` and, once the recorded findings are factored out,
    every unsafe loader's result agrees with pickle"""
    spec = tuple(case['spec'])
    opts = dict(case.get('options') or {})
    x = build(spec)
    if which not in features(x):
        return False
    ref = reference(x)
    ordered = opts.get('sort_keys', True) is False
    want = canon_relaxed(ref, ordered)
    Dm = dict(DUMPERS)[case.get('dumper', 'py')]
    text = yaml.dump(build(spec), Dumper=Dm, **opts)
    for ln, Ld in UNSAFE:
        if canon_relaxed(yaml.load(text, Loader=Ld), ordered) != want:
            return False
    return True


# ---------------------------------------------------------------- the shape family
def shapes():
    """(name, maker(inner) -> object holding `inner` in every slot it has, is_holder)"""
    V = S()
    D = datetime
    out = []

    def add(name, mk, holder=True):
        out.append((name, mk, holder))
    add('Plain', lambda x: V.Plain(a=x, b=[x], c='s'))
    add('Slots', lambda x: V.Slots(x, {'k': x}))
    add('SlotsDict', lambda x: V.SlotsDict(x, extra=x))
    # slots and instance dict in every combination of "set" and "empty"
    add('SlotsDict-slot-only', lambda x: V.SlotsDict(x))
    add('SlotsDict-dict-only', lambda x: _del(V.SlotsDict(None, extra=x), 'x'))
    add('SlotsDict-empty', lambda x: _del(V.SlotsDict(), 'x'), False)
    add('SlotsSubDict-slot-only', lambda x: _set(V.SlotsSubDict(), x=x))
    add('SlotsSubDict-both', lambda x: _set(V.SlotsSubDict(), x=x, extra=[x]))
    add('SlotsSubDict-dict-only', lambda x: _set(V.SlotsSubDict(), extra=x))
    add('SlotsSubSlots', lambda x: _set(V.SlotsSubSlots(), x=x, y=[x]))
    add('SlotsSubSlots-base-only', lambda x: _set(V.SlotsSubSlots(), x=x))
    add('SlotsUnset', lambda x: _set(V.SlotsUnset(), y=x))
    add('NestedInstance', lambda x: V.Outer.Inner(x))
    add('StateDict', lambda x: V.StateDict(x, (1, x)))
    add('StateTuple', lambda x: V.StateTuple(x, 'b'))
    add('StateFalsy', lambda x: V.StateFalsy(), False)
    add('NewArgs', lambda x: V.NewArgs(x, 2))
    add('ReduceArgs', lambda x: V.ReduceArgs(x, [x]))
    add('ReduceState', lambda x: _set(V.ReduceState(x), extra=x))
    add('ReduceList', lambda x: _ext(V.ReduceList('t'), [x, 1, x]))
    add('ReduceDict', lambda x: _upd(V.ReduceDict('t'), {'k': x, 'j': [x]}))
    add('ReduceAll', lambda x: _all(V.ReduceAll('t'), x))
    add('ReduceFunc', lambda x: V.ReduceFunc(x))
    add('ReduceNoArgs', lambda x: _set(V.ReduceNoArgs(), extra=x))
    add('ReduceNoArgsNoState', lambda x: V.ReduceNoArgsNoState(), False)
    add('DictItemsOnly', lambda x: _setitems(V.DictItemsOnly(), [('k', x), ('j', 1)]))
    add('SetItemDict', lambda x: _setitems(V.SetItemDict(), [('k', 'v1'), ('j', x if isinstance(x, str) else 'v2')]))
    add('CopyregArgs', lambda x: _set(V.CopyregArgs(x), scratch=x))
    add('CopyregState', lambda x: _ext(V.CopyregState(x), [x, 1]))
    add('ListSub', lambda x: _set(_ext(V.ListSub(), [x, 'i']), attr=x))
    add('DictSub', lambda x: _set(_upd(V.DictSub(), {'k': x}), attr=1))
    add('SetSub', lambda x: _set(V.SetSub([1, 'a']), attr=x))
    add('TupleSub', lambda x: V.TupleSub((x, 1)))
    add('IntSub', lambda x: _set(V.IntSub(7), attr=x))
    add('StrSub', lambda x: _set(V.StrSub('seven'), attr=x))
    add('Point', lambda x: V.Point(x, 2))
    add('tuple', lambda x: (x, 'b', (x,)))
    add('OrderedDict', lambda x: collections.OrderedDict([('z', x), ('a', 1)]))
    add('defaultdict', lambda x: collections.defaultdict(list, {'k': [x]}))
    add('deque', lambda x: collections.deque([x, 1], 5))
    add('list', lambda x: [x, [x]])
    add('dict', lambda x: {'k': x, 'j': {'i': x}})
    # leaves
    for nm, v in [('Color.RED', V.Color.RED), ('Color.GREEN', V.Color.GREEN), ('Perm.R', V.Perm.R), ('Perm.RW', V.Perm.R | V.Perm.W),
                  ('complex', 1.5 - 2j), ('complex-negzero', complex(-0.0, 0.0)), ('complex-inf', complex(float('inf'), -1)), ('complex-nan', complex(float('nan'), 1)),
                  ('complex-int', 3 + 0j), ('class', V.Plain), ('function', V.a_function), ('nested-class', V.Outer.Inner), ('nested-function', V.Outer.method), ('nested-static', V.Outer.smethod), ('builtin', len), ('builtin-type', int), ('module', collections),
                  ('Counter', collections.Counter('aab')), ('frozenset', frozenset([1, 'a'])), ('bytearray', bytearray(b'a\x00\xff')), ('range', range(1, 10, 2)),
                  ('Fraction', fractions.Fraction(3, 4)), ('Decimal', decimal.Decimal('1.50')), ('timedelta', D.timedelta(1, 2, 3)), ('time', D.time(1, 2, 3, 4)),
                  ('timezone', D.timezone(D.timedelta(hours=5), 'X')), ('timezone-utc', D.timezone.utc), ('datetime-tz', D.datetime(2001, 1, 1, tzinfo=D.timezone.utc)),
                  ('date', D.date(2001, 1, 1)), ('bytes', b'\x00\xff'), ('set', {1, 'a'}), ('str-nl', 'a\nb'), ('empty-tuple', ()), ('StateFalsy', None)]:
        if nm != 'StateFalsy':
            add('leaf:' + nm, (lambda x, v=v: v), False)
    return out


def _set(o, **kw):
    for k, v in kw.items():
        setattr(o, k, v)
    return o


def _setitems(o, pairs):
    for k, v in pairs:
        o[k] = v
    return o


def _del(o, name):
    delattr(o, name)
    return o


def _ext(o, items):
    o.extend(items)
    return o


def _upd(o, d):
    o.update(d)
    return o


def _all(o, x):
    o.extend([x, 2])
    o['dk'] = x
    o.extra = [x]
    return o


def build(spec):
    """spec: ('alone', i) | ('pair', i, j) | ('under', i, j) | ('share', k, i, j) | ('cycle', k, i) -> object graph"""
    sh = shapes()
    kind = spec[0]
    if kind == 'alone':
        return sh[spec[1]][1]('v')
    if kind == 'pair':
        return sh[spec[1]][1](sh[spec[2]][1]('v'))
    if kind == 'triple':
        return sh[spec[1]][1](sh[spec[2]][1](sh[spec[3]][1]('v')))
    if kind == 'under':
        return [sh[spec[1]][1]('v'), {'k': sh[spec[2]][1]('w')}, (sh[spec[2]][1]('u'),)]
    if kind == 'share':
        k, i, j = spec[1:]
        inner = sh[j][1]('v')
        if k == 0:
            return [inner, inner]
        if k == 1:
            return {'a': sh[i][1](inner), 'b': [inner]}
        if k == 2:
            h = sh[i][1](inner)
            return [h, h, inner]
        if k == 3:
            return [sh[i][1](inner), sh[i][1](inner)]
    if kind == 'cycle':
        k, i = spec[1:]
        mk = sh[i][1]
        if k == 0:            # through a list held by the object
            l = []
            o = mk(l)
            l.append(o)
            return o
        if k == 1:            # through a dict
            d = {}
            o = mk(d)
            d['me'] = o
            return [o]
        if k == 2:            # through a plain instance __dict__
            p = S().Plain()
            o = mk(p)
            p.back = o
            return p
        if k == 4:            # a self-referential plain instance held (in every slot) by the shape: the cycle excludes the outer object
            inner = S().Plain()
            inner.me = inner
            inner.box = [inner, {'k': inner}]
            return [mk(inner), {'again': mk(inner)}]
        if k == 3:            # mutual Plain instances + the shape in between
            a, b = S().Plain(), S().Plain()
            a.b = b
            b.a = a
            b.o = mk(a)
            return a
    raise ValueError(spec)


class _Pickler(pickle.Pickler):
    """pickle protocol 2, with modules pickled by name (the statement lists "modules by name"; plain pickle refuses them)"""

    def reducer_override(self, obj):
        if isinstance(obj, types.ModuleType):
            import importlib
            return (importlib.import_module, (obj.__name__,))
        return NotImplemented


def reference(x):
    """O-pickle"""
    import io
    f = io.BytesIO()
    _Pickler(f, 2).dump(x)
    return pickle.loads(f.getvalue())


OBJ_TAGS = ('tag:yaml.org,2002:python/object', 'tag:yaml.org,2002:python/module')


def check_graph(T, sub, spec, opts_list, dumpers=DUMPERS):
    try:
        x = build(spec)
    except Exception as e:
        raise RuntimeError('harness: cannot build %r: %s' % (spec, e))
    cyc = spec[0] == 'cycle'
    # a cycle must be preserved when it runs only through lists, dicts and plain instance dictionaries; through
    # constructor arguments / __setstate__ state / listitems / dictitems it may instead be rejected with ConstructorError
    # (k == 4: the cycle runs through the inner plain instance only, whatever holds it)
    may_reject = cyc and spec[1] != 4 and shapes()[spec[2]][0] not in ('Plain', 'list', 'dict')
    try:
        ref = reference(x)
        want = canon(ref)
        pick_ok = True
    except Exception as e:
        # pickle itself cannot rebuild it (cycle through constructor arguments): the reference is the original graph
        if not may_reject:
            raise RuntimeError('harness: pickle cannot handle %r: %s' % (spec, e))
        pick_ok = False
        ref = x
        want = canon(x)
    T.nontrivial += 1
    for o in opts_list:
        ordered = o.get('sort_keys', True) is False
        w = want if not ordered else canon(ref, ordered=True)
        for dn, Dm in dumpers:
            T.evaluations += 1
            case = {'spec': list(spec), 'options': o, 'dumper': dn}
            if T.trace: T.begin(case)
            try:
                text = yaml.dump(build(spec), Dumper=Dm, **o)
            except yaml.YAMLError as e:
                if not may_reject:
                    T.violation(sub, 'dump-rejects:' + type(e).__name__, case, detail='pickle handles it, dump raised %s' % str(e)[:160])
                continue
            except RecursionError:
                if not may_reject:
                    T.violation(sub, 'dump-recursion', case, detail='pickle handles it, dump hit the recursion limit')
                continue
            except Exception as e:
                T.violation(sub, 'dump-exception:' + type(e).__name__, case, detail=str(e)[:200])
                continue
            obj_tags = any(t in text for t in ('!!python/object', '!!python/module')) or 'tag:yaml.org,2002:python/object' in text or 'tag:yaml.org,2002:python/module' in text
            unsafe_res = None
            for ln, Ld in UNSAFE:
                try:
                    back = yaml.load(text, Loader=Ld)
                except yaml.constructor.ConstructorError as e:
                    if not may_reject:
                        T.violation(sub, 'load-rejects', case, detail='%s wrote %r; %s raised ConstructorError(%s) but pickle rebuilds it' % (dn, _short(text), ln, str(e).replace('\n', ' ')[:160]))
                    else:
                        T.count('cycle-rejected')
                    continue
                except Exception as e:
                    T.violation(sub, 'load-exception:' + type(e).__name__, case, detail='%s wrote %r; %s raised %s(%s)' % (dn, _short(text), ln, type(e).__name__, str(e).replace('\n', ' ')[:160]))
                    continue
                try:
                    got = canon(back, ordered=ordered)
                except Exception as e:
                    T.violation(sub, 'unwalkable-result', case, detail='%s: %s' % (ln, e))
                    continue
                if got != w:
                    T.violation(sub, 'differs-from-pickle' if not may_reject else 'cycle-mis-built', case,
                                detail='%s wrote %r; %s rebuilt %s; pickle gives %s' % (dn, _short(text), ln, _short(repr(got), 300), _short(repr(w), 300)))
                elif unsafe_res is None:
                    unsafe_res = got
            for ln, Ld in FULLS:
                try:
                    back = yaml.load(text, Loader=Ld)
                    res = ('ok', canon(back, ordered=ordered))
                except yaml.constructor.ConstructorError as e:
                    res = ('reject', str(e).replace('\n', ' ')[:120])
                except Exception as e:
                    res = ('!' + type(e).__name__, str(e)[:120])
                if obj_tags:
                    if res[0] != 'reject':
                        T.violation(sub, 'full-loader-accepts-object-tag', case, detail='%s wrote %r; %s: %s' % (dn, _short(text), ln, _short(repr(res))))
                else:
                    if res[0] != 'ok':
                        T.violation(sub, 'full-loader-rejects-plain-subset', case, detail='%s wrote %r (no object tags); %s: %s' % (dn, _short(text), ln, _short(repr(res))))
                    elif unsafe_res is not None and res[1] != unsafe_res:
                        T.violation(sub, 'full-differs-from-unsafe', case, detail='%s wrote %r; %s gives %s' % (dn, _short(text), ln, _short(repr(res[1]))))
            T.outcome((obj_tags, text[:24]))


def _short(x, n=220):
    x = x if isinstance(x, str) else repr(x)
    return x if len(x) <= n else x[:n // 2] + ' ... ' + x[-n // 2:]


def plan(tier, seed):
    q = tier == 'quick'
    n = len(shapes())
    holders = [i for i, s in enumerate(shapes()) if s[2]]
    jobs = [('alone', i) for i in range(n)]
    for i in holders:
        jobs.append(('pairs', i, (seed % (len(OPTS) - 1)) + 1 if q else None))
    for i in holders:
        jobs.append(('share', i, q))
    jobs += [('cycle', i) for i in holders]
    if not q:
        jobs += [('triples', i, j) for i in holders for j in holders]
    return jobs


def run_job(job, T):
    kind = job[0]
    n = len(shapes())
    if kind == 'alone':
        check_graph(T, 'alone', ('alone', job[1]), OPTS)
        T.sample('alone', {'shape': shapes()[job[1]][0]})
    elif kind == 'pairs':
        _, i, rot = job
        opts = OPTS if rot is None else [OPTS[0], OPTS[rot]]
        for j in range(n):
            check_graph(T, 'pairs', ('pair', i, j), opts)
            check_graph(T, 'under', ('under', i, j), opts[:1] if rot is not None else OPTS[:3])
        T.sample('pairs', {'holder': shapes()[i][0], 'inner': shapes()[j][0]})
    elif kind == 'share':
        _, i, q = job
        for j in range(n):
            for k in range(4):
                if k == 0 and i != 0:
                    continue
                check_graph(T, 'sharing', ('share', k, i, j), OPTS[:2] if q else OPTS)
        T.sample('sharing', {'holder': shapes()[i][0], 'inner': shapes()[j][0]})
    elif kind == 'triples':
        _, i, j = job
        for k in range(n):
            check_graph(T, 'triples', ('triple', i, j, k), OPTS[:1])
        T.sample('triples', {'outer': shapes()[i][0], 'middle': shapes()[j][0], 'inner': shapes()[k][0]})
    elif kind == 'cycle':
        for k in range(5):
            check_graph(T, 'cycles', ('cycle', k, job[1]), OPTS[:3])
        T.sample('cycles', {'shape': shapes()[job[1]][0]})
    else:
        raise ValueError(job)


def replay(sub, case, T):
    opts = dict(case.get('options') or {})
    check_graph(T, sub, tuple(case['spec']), [opts], dumpers=[d for d in DUMPERS if d[0] == case.get('dumper', d[0])])


def snippet(sub, case):
    return ('import sys; sys.path.insert(0, "/verif"); sys.path.insert(0, "/verif/vf/support")\nimport yaml, pickle\nfrom vf.props import c17\n'
            'x = c17.build(%r)\nt = yaml.dump(x, **%r)\nprint(t)\nprint(c17.canon(yaml.unsafe_load(t)))\nprint(c17.canon(pickle.loads(pickle.dumps(x, 2))))\n'
            % (tuple(case['spec']), case.get('options') or {}))


def selftest():
    graph.selftest()
    V = S()
    a = V.Plain(x=1)
    assert canon([a, a]) != canon([V.Plain(x=1), V.Plain(x=1)]) and canon(V.Plain(x=1)) == canon(V.Plain(x=1))
    assert canon(V.Slots(1, 2)) != canon(V.Slots(1, 3)) and canon(V.IntSub(7)) != canon(7) and canon(V.Color.RED) != canon(V.Color.GREEN)
    for i, (name, mk, holder) in enumerate(shapes()):
        x = mk('v')
        r = reference(x)
        assert canon(reference(r)) == canon(r), name      # pickle's rebuild is a fixed point: a usable reference
    p = V.Plain()
    p.me = p
    assert canon(p) == canon(reference(p))
    assert canon(collections.OrderedDict([('a', 1), ('b', 2)])) != canon(collections.OrderedDict([('b', 2), ('a', 1)]))
